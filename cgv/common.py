"""Shared plumbing: building from /repo's working tree, the cgv dump process, the real complgen
binary, evidence files, known findings, exit codes."""
import fcntl
import hashlib
import json
import os
import subprocess
import sys
import time

VERIF = os.path.dirname(os.path.dirname(os.path.abspath(__file__)))
# the tree under verification: /repo, or a snapshot of it (vp run --with-repo exports VP_RUN_REPO)
REPO = os.environ.get('CGV_REPO') or os.environ.get('VP_RUN_REPO') or '/repo'
BUILD = os.path.join(VERIF, '.build')
HARNESS_TARGET = os.path.join(BUILD, 'harness')
REPO_TARGET = os.path.join(BUILD, 'repo')
CGV_BIN = os.path.join(HARNESS_TARGET, 'debug', 'cgv')
COMPLGEN_BIN = os.path.join(REPO_TARGET, 'debug', 'complgen')
REPLAYS = os.path.join(VERIF, 'replays')
EVIDENCE = os.path.join(VERIF, 'evidence')
SHELLS = ('bash', 'fish', 'zsh', 'pwsh')

EXIT_OK, EXIT_VIOLATION, EXIT_INCONCLUSIVE = 0, 1, 2


from .errors import Inconclusive  # noqa: E402,F401


def env_offline():
    e = dict(os.environ)
    e['CARGO_NET_OFFLINE'] = 'true'
    e.pop('RUSTUP_TOOLCHAIN', None)
    return e


def ensure_built(verbose=True):
    """Rebuild the harness (links the real library with feature `verif`) and the real binary from
    /repo's *current working tree*. cargo's own dependency tracking makes this incremental."""
    os.makedirs(BUILD, exist_ok=True)
    lock = open(os.path.join(BUILD, '.lock'), 'w')
    fcntl.flock(lock, fcntl.LOCK_EX)
    try:
        t0 = time.time()
        manifest = os.path.join(VERIF, 'harness', 'Cargo.toml')
        if os.path.realpath(REPO) != '/repo':
            # the harness names /repo as a path dependency: for another tree, build from a copy of the manifest that names that tree
            alt = os.path.join(BUILD, 'harness-alt')
            os.makedirs(alt, exist_ok=True)
            text = open(manifest).read().replace('path = "/repo"', 'path = "%s"' % os.path.realpath(REPO))
            mpath = os.path.join(alt, 'Cargo.toml')
            if not os.path.exists(mpath) or open(mpath).read() != text:
                open(mpath, 'w').write(text)
            import shutil
            shutil.copyfile(os.path.join(VERIF, 'harness', 'Cargo.lock'), os.path.join(alt, 'Cargo.lock'))
            link = os.path.join(alt, 'src')
            if not os.path.islink(link):
                os.symlink(os.path.join(VERIF, 'harness', 'src'), link)
            manifest = mpath
        for what, cmd, tgt in (
            ('harness', ['cargo', 'build', '--offline', '--manifest-path', manifest], HARNESS_TARGET),
            ('complgen', ['cargo', 'build', '--offline', '--manifest-path',
                          os.path.join(REPO, 'Cargo.toml'), '--bin', 'complgen'], REPO_TARGET),
        ):
            e = env_offline()
            e['CARGO_TARGET_DIR'] = tgt
            p = subprocess.run(cmd, env=e, stdout=subprocess.PIPE, stderr=subprocess.STDOUT, text=True)
            if p.returncode != 0:
                sys.stderr.write(p.stdout[-4000:])
                raise Inconclusive('building %s from %s failed' % (what, REPO))
        if verbose:
            sys.stderr.write('[build] harness + complgen from %s in %.1fs\n' % (REPO, time.time() - t0))
    finally:
        fcntl.flock(lock, fcntl.LOCK_UN)
        lock.close()


class Cgv:
    """Persistent cgv process (one per worker)."""

    def __init__(self):
        self.p = subprocess.Popen([CGV_BIN], stdin=subprocess.PIPE, stdout=subprocess.PIPE,
                                  stderr=subprocess.DEVNULL, text=True, bufsize=1)

    def _req(self, line):
        try:
            self.p.stdin.write(line + '\n')
            self.p.stdin.flush()
            out = self.p.stdout.readline()
        except BrokenPipeError:
            out = ''
        if not out:
            # the library aborted (stack overflow, abort): restart and report as a crash
            try:
                self.p.kill()
            except Exception:
                pass
            self.__init__()
            return {'ok': False, 'stage': 'crash', 'error': 'process died'}
        return json.loads(out)

    def dump(self, shell, text):
        return self._req('dump %s %s' % (shell, text.encode().hex()))

    def strconst(self, s):
        return self._req('strconst %s' % s.encode().hex())

    def close(self):
        try:
            self.p.stdin.close()
            self.p.wait(timeout=5)
        except Exception:
            self.p.kill()


def complgen(args, text, timeout=30):
    """Run the real binary: complgen <args> on grammar text given on stdin ('-')."""
    p = subprocess.run([COMPLGEN_BIN] + args, input=text, stdout=subprocess.PIPE,
                       stderr=subprocess.PIPE, text=True, timeout=timeout)
    return p.returncode, p.stdout, p.stderr


def emit_script(shell, text):
    rc, out, err = complgen(['--' + shell, '-', '-'], text)
    return rc, out, err


# ---------------------------------------------------------------------------------------------
# findings

def load_known():
    path = os.path.join(VERIF, 'known_findings.json')
    if not os.path.exists(path):
        return {'known': [], 'fixed': []}
    with open(path) as f:
        return json.load(f)


def known_keys(prop):
    k = load_known()
    return {e['key']: e for e in k.get('known', []) if e['property'] == prop}


def replay_path(prop, payload):
    d = os.path.join(REPLAYS, prop)
    os.makedirs(d, exist_ok=True)
    blob = json.dumps(payload, sort_keys=True, default=str)
    h = hashlib.sha1(blob.encode()).hexdigest()[:12]
    path = os.path.join(d, h + '.json')
    with open(path, 'w') as f:
        json.dump(payload, f, indent=1, sort_keys=True, default=str)
    return path


class Report:
    """Collects what a run covered and what it found; turns it into exit code + evidence."""

    def __init__(self, prop, tier, seed, level):
        self.prop = prop
        self.tier = tier
        self.seed = seed
        self.level = level
        self.t0 = time.time()
        self.violations = []      # (key, what, replay path)
        self.inconclusive = []    # reasons
        self.coverage = {}
        self.assumptions = []

    def violation(self, key, what, payload):
        path = replay_path(self.prop, dict(payload, property=self.prop, key=key, what=what))
        self.violations.append((key, what, path))

    def finish(self):
        known = known_keys(self.prop)

        def is_known(k):
            # a violation attributed to several known deviations at once is known iff each of them is listed
            return all(part in known for part in k.split('+'))
        new = [(k, w, p) for (k, w, p) in self.violations if not is_known(k)]
        seen_known = {}
        for (k, w, p) in self.violations:
            if is_known(k):
                for part in k.split('+'):
                    if part not in seen_known:
                        seen_known[part] = (w, p)
        for k, (w, p) in sorted(seen_known.items()):
            print('KNOWN-FINDING: property=%s %s -- %s (e.g. %s)' % (self.prop, k, known[k]['what'], p))
        reported = set()
        for (k, w, p) in new:
            if k in reported:
                continue
            reported.add(k)
            print('VIOLATION property=%s replay=%s' % (self.prop, p))
            print('  %s: %s' % (k, w))
        for r in self.inconclusive[:20]:
            print('INCONCLUSIVE: %s' % r)
        cov = dict(self.coverage)
        cov.setdefault('known_findings_seen', sorted(seen_known))
        ev = {
            'property_id': self.prop,
            'tier': self.tier,
            'seed': self.seed,
            'level': self.level,
            'coverage': cov,
            'assumptions': self.assumptions,
            'wall_s': round(time.time() - self.t0, 2),
            'violations': len(reported),
        }
        os.makedirs(EVIDENCE, exist_ok=True)
        with open(os.path.join(EVIDENCE, self.prop + '.json'), 'w') as f:
            json.dump(ev, f, indent=1, sort_keys=True, default=str)
        if new:
            return EXIT_VIOLATION
        if self.inconclusive:
            return EXIT_INCONCLUSIVE
        return EXIT_OK


def tier_and_seed(argv):
    tier = os.environ.get('VERIF_TIER', 'quick')
    for i, a in enumerate(argv):
        if a == '--tier' and i + 1 < len(argv):
            tier = argv[i + 1]
    seed = int(os.environ.get('VERIF_SEED', '1'))
    if tier not in ('quick', 'thorough'):
        tier = 'quick'
    return tier, seed


def nworkers():
    try:
        return max(1, min(16, len(os.sched_getaffinity(0))))
    except Exception:
        return 8
