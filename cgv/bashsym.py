"""E2: interpreter for the bash subset of the emitted completion script, over concrete or symbolic
strings (sym.py). The same code runs in concrete mode (validated against real bash on every run)
and in symbolic mode (conditions over symbolic words become solver-decided branches).

Unsupported constructs raise Unsupported -> the check is inconclusive, never a pass.
"""
from . import sym
from .sym import SymStr, Slice, is_sym, concat
from .bashparse import parse, Unsupported, P


class BreakEx(Exception):
    def __init__(self, n):
        self.n = n


class ContinueEx(Exception):
    def __init__(self, n):
        self.n = n


class ReturnEx(Exception):
    def __init__(self, rc):
        self.rc = rc


class ExitEx(Exception):
    def __init__(self, rc):
        self.rc = rc


class Quoted:
    """printf %q of a symbolic string: as a pattern it matches exactly the inner string."""

    def __init__(self, inner):
        self.inner = inner


class SymLen:
    """${#x} of a symbolic string"""

    def __init__(self, s):
        self.s = s


def fnv(s):
    i = 2166136261
    for c in s.encode():
        i = (i + (i << 1) + (i << 4) + (i << 7) + (i << 8) + (i << 24)) & 0xffffffff
        i ^= c
    return i


def assoc_order(keys):
    """Iteration order of a bash 5.2 associative array (1024 buckets, FNV-1, newest first in a bucket)."""
    buckets = {}
    for k in keys:
        buckets.setdefault(fnv(k) & 1023, []).insert(0, k)
    out = []
    for b in sorted(buckets):
        out.extend(buckets[b])
    return out


def bash_quote(s):
    """printf %q for printable ASCII strings (what bash 5.2 does for them)."""
    if s == '':
        return "''"
    out = []
    for ch in s:
        if ch in ' \t!"#$&\'()*,;<>?[\\]^`{|}' or (ch == '~' and not out) :
            out.append('\\' + ch)
        elif ch == '\n' or ord(ch) < 32 or ord(ch) > 126:
            raise Unsupported('printf %%q of control/non-ASCII character %r' % ch)
        else:
            out.append(ch)
    return ''.join(out)


class Var:
    __slots__ = ('kind', 'val')

    def __init__(self, kind, val):
        self.kind = kind   # 'scalar' | 'indexed' | 'assoc' | 'nameref'
        self.val = val


def ansi_decode(t):
    """$'...' escapes used by the emitted scripts"""
    out = []
    i = 0
    table = {'t': '\t', 'n': '\n', 'r': '\r', '\\': '\\', "'": "'", '"': '"', 'a': '\a', 'b': '\b', 'e': '\x1b', 'f': '\f', 'v': '\v'}
    while i < len(t):
        if t[i] == '\\' and i + 1 < len(t):
            if t[i + 1] in table:
                out.append(table[t[i + 1]])
                i += 2
                continue
            raise Unsupported("$'...' escape \\%s" % t[i + 1])
        out.append(t[i])
        i += 1
    return ''.join(out)


class Interp:
    def __init__(self, engine=None, probes=None, wordbreaks=" \t\n\"'><=;|&(:", glob_free_alphabet=True):
        self.engine = engine
        self.globals = {}
        self.scopes = [self.globals]
        self.funcs = {}
        self.stdout = []          # stack of output buffers (lists of values)
        self.stdin = []           # stack of line lists
        self.loop_depth = 0
        self.probes = probes or {}        # id -> output text
        self.invocations = []             # (function name, [args], phase note)
        self.probe_log = []               # (id, arg1, arg2)
        self.completes = []
        self.steps = 0
        self.max_steps = 400000
        self.glob_free = glob_free_alphabet
        self.sites = set()
        self.globals['BASH_VERSINFO'] = Var('indexed', {0: '5', 1: '2', 2: '15'})
        self.globals['BASH_VERSION'] = Var('scalar', '5.2.15(1)-release')
        self.globals['COMP_WORDBREAKS'] = Var('scalar', wordbreaks)
        self.globals['IFS'] = Var('scalar', ' \t\n')

    # -- decisions ---------------------------------------------------------------------------
    def decide(self, cond):
        if cond is True or cond is False:
            return cond
        if self.engine is None:
            raise Unsupported('symbolic condition in concrete mode')
        return self.engine.decide(cond)

    # -- variables -----------------------------------------------------------------------------
    def lookup(self, name, follow=True):
        for sc in reversed(self.scopes):
            if name in sc:
                v = sc[name]
                if follow and v.kind == 'nameref':
                    return self.lookup(v.val, True)
                return v
        return None

    def resolve_name(self, name):
        v = self.lookup(name, follow=False)
        seen = 0
        while v is not None and v.kind == 'nameref':
            name = v.val
            v = self.lookup(name, follow=False)
            seen += 1
            if seen > 10:
                raise Unsupported('nameref cycle')
        return name

    def scope_of(self, name):
        for sc in reversed(self.scopes):
            if name in sc:
                return sc
        return self.globals

    def set_scalar(self, name, val, local=False):
        name = self.resolve_name(name)
        sc = self.scopes[-1] if local else self.scope_of(name)
        cur = sc.get(name)
        if cur is not None and cur.kind in ('indexed',):
            cur.val[0] = val
        elif cur is not None and cur.kind == 'assoc':
            cur.val['0'] = val
        else:
            sc[name] = Var('scalar', val)

    def get_scalar(self, name):
        v = self.lookup(name)
        if v is None:
            return ''
        if v.kind == 'scalar':
            return v.val
        if v.kind == 'indexed':
            return v.val.get(0, '')
        if v.kind == 'assoc':
            return v.val.get('0', '')
        return ''

    # -- running -------------------------------------------------------------------------------
    def tick(self):
        self.steps += 1
        if self.steps > self.max_steps:
            raise Unsupported('step limit exceeded (runaway loop?)')

    def run(self, ast):
        k = ast[0]
        self.tick()
        if k == 'list':
            rc = 0
            for st in ast[1]:
                rc = self.run(st)
            return rc
        if k == 'simple':
            return self.run_simple(ast)
        if k == 'and':
            rc = self.run(ast[1])
            if rc == 0:
                return self.run(ast[2])
            return rc
        if k == 'or':
            rc = self.run(ast[1])
            if rc != 0:
                return self.run(ast[2])
            return rc
        if k == 'cond':
            return 0 if self.eval_cond(ast[1]) else 1
        if k == 'arith':
            v = self.arith(self.expand_arith_text(ast[1]))
            return 0 if v != 0 else 1
        if k == 'if':
            for cond, body in ast[1]:
                if self.run(cond) == 0:
                    return self.run(body)
            if ast[2] is not None:
                return self.run(ast[2])
            return 0
        if k == 'while':
            return self.run_loop(lambda: self.run(ast[1]) == 0, ast[2], None)
        if k == 'for_in':
            items = []
            for w in ast[2]:
                items.extend(self.expand_word(w))
            it = iter(items)

            def nxt():
                try:
                    v = next(it)
                except StopIteration:
                    return False
                self.set_scalar(ast[1], v)
                return True
            return self.run_loop(nxt, ast[3], None)
        if k == 'for_arith':
            self.arith(self.expand_arith_text(ast[1]))
            return self.run_loop(lambda: self.arith(self.expand_arith_text(ast[2])) != 0, ast[4],
                                 lambda: self.arith(self.expand_arith_text(ast[3])))
        if k == 'func':
            self.funcs[ast[1]] = ast[2]
            return 0
        if k == 'brace':
            return self.run(ast[1])
        if k == 'pipeline':
            return self.run_pipeline(ast[1])
        raise Unsupported('statement kind %s' % k)

    def run_loop(self, test, body, step):
        self.loop_depth += 1
        rc = 0
        try:
            while test():
                self.tick()
                try:
                    rc = self.run(body)
                except BreakEx as b:
                    if b.n > 1:
                        raise BreakEx(b.n - 1)
                    break
                except ContinueEx as c:
                    if c.n > 1:
                        raise ContinueEx(c.n - 1)
                if step is not None:
                    step()
        finally:
            self.loop_depth -= 1
        return rc

    def run_pipeline(self, cmds):
        data = None
        rc = 0
        for i, c in enumerate(cmds):
            last = (i == len(cmds) - 1)
            if data is not None:
                self.stdin.append(self.to_lines(data))
            if not last:
                self.stdout.append([])
            try:
                # each element of a pipeline runs in a subshell: variable changes do not escape
                saved = self.snapshot()
                try:
                    rc = self.run(c)
                except (BreakEx, ContinueEx):
                    rc = 0
                finally:
                    if not last or True:
                        self.restore(saved)
            finally:
                if data is not None:
                    self.stdin.pop()
                if not last:
                    data = self.stdout.pop()
        return rc

    def snapshot(self):
        def cp(v):
            if v.kind in ('indexed', 'assoc'):
                return Var(v.kind, dict(v.val))
            return Var(v.kind, v.val)
        return [dict((k, cp(v)) for k, v in sc.items()) for sc in self.scopes], dict(self.funcs)

    def restore(self, snap):
        scopes, funcs = snap
        for sc, saved in zip(self.scopes, scopes):
            sc.clear()
            sc.update(saved)
        self.funcs = funcs

    def to_lines(self, data):
        for d in data:
            if not isinstance(d, str):
                raise Unsupported('symbolic data flows through a pipe')
        text = ''.join(data)
        lines = text.split('\n')
        if lines and lines[-1] == '':
            lines.pop()
        return lines

    def out(self, v):
        if self.stdout:
            self.stdout[-1].append(v)

    # -- simple commands -----------------------------------------------------------------------
    def run_simple(self, ast):
        _, assigns, words, redirs, line = ast
        if not words:
            for a in assigns:
                self.do_assign(a, local=False)
            return 0
        temp_ifs = None
        if assigns:
            # the only temporary assignment the emitter uses: IFS=... read ...
            first = words[0]
            if (len(assigns) == 1 and assigns[0][0] == 'IFS' and assigns[0][1] is None and assigns[0][2] == '='
                    and first[0] == 'word' and first[1] == [('lit', 'read')]):
                temp_ifs = self.expand_one(assigns[0][3])
                if not isinstance(temp_ifs, str) or any(c not in ' \t\n' for c in temp_ifs):
                    raise Unsupported('line %d: IFS value %r' % (line, temp_ifs))
            else:
                raise Unsupported('line %d: temporary assignment before a command' % line)
        argv = []
        raw = []
        for w in words:
            if w[0] == 'assignword':
                raw.append(w)
                argv.append(w)
            else:
                vals = self.expand_word(w)
                argv.extend(vals)
        if not argv:
            return 0
        name = argv[0]
        if not isinstance(name, str):
            raise Unsupported('line %d: symbolic command name' % line)
        if name not in ('local', 'declare'):
            for i, a in enumerate(argv):
                if isinstance(a, tuple) and a[0] == 'assignword':
                    nm, index, op, value = a[1]
                    if index is not None or value[0] == 'array':
                        raise Unsupported('line %d: assignment-shaped argument' % line)
                    argv[i] = concat(nm, op, self.expand_one(value))
        args = argv[1:]
        pushed = False
        for r in redirs:
            if r[0] == 'stdin_procsub':
                self.stdout.append([])
                saved = self.snapshot()
                try:
                    self.run(r[1])
                finally:
                    self.restore(saved)
                    data = self.stdout.pop()
                self.stdin.append(self.to_lines(data))
                pushed = True
        self.temp_ifs = temp_ifs
        try:
            return self.call(name, args, line)
        finally:
            self.temp_ifs = None
            if pushed:
                self.stdin.pop()

    def call(self, name, args, line):
        if name in self.funcs:
            return self.call_function(name, args)
        b = getattr(self, 'b_' + name.replace('-', '_'), None)
        if b is None:
            raise Unsupported('line %d: command %r' % (line, name))
        return b(args)

    def call_function(self, name, args):
        body = self.funcs[name]
        self.invocations.append((name, list(args)))
        scope = {'@': Var('indexed', {i: a for i, a in enumerate(args)})}
        self.scopes.append(scope)
        saved_depth = self.loop_depth
        self.loop_depth = 0
        try:
            try:
                return self.run(body)
            except ReturnEx as r:
                return r.rc
            except (BreakEx, ContinueEx):
                return 0
        finally:
            self.loop_depth = saved_depth
            self.scopes.pop()

    # -- builtins ------------------------------------------------------------------------------
    def b_true(self, args):
        return 0

    def b_echo(self, args):
        # leading arguments of the form -[neE]+ are options (bash builtin, xpg_echo off)
        args = list(args)
        newline = True
        escapes = False
        while args:
            a = args[0]
            if isinstance(a, str):
                if len(a) >= 2 and a[0] == '-' and all(c in 'neE' for c in a[1:]):
                    for c in a[1:]:
                        if c == 'n':
                            newline = False
                        elif c == 'e':
                            escapes = True
                        else:
                            escapes = False
                    args.pop(0)
                    continue
                break
            if is_sym(a) and self.decide(sym.over_lengths(sym.words_of(a), lambda asg: (lambda cs: sym.conj(
                    [len(cs) >= 2] + ([sym.char_eq(cs[0], '-')] + [sym.disj([sym.char_eq(c, o) for o in 'neE']) for c in cs[1:]]
                                      if len(cs) >= 2 else [])))(sym.expand(a, asg)))):
                raise Unsupported('echo of a symbolic word that is an echo option')
            break
        if escapes and any((not isinstance(a, str)) or '\\' in a for a in args):
            raise Unsupported('echo -e with backslashes')
        parts = []
        for i, a in enumerate(args):
            if i:
                parts.append(' ')
            parts.append(a)
        if newline:
            parts.append('\n')
        v = concat(*parts) if parts else ''
        self.out(v)
        return 0

    def b_printf(self, args):
        if not args or not isinstance(args[0], str):
            raise Unsupported('printf format')
        fmt = args[0]
        rest = list(args[1:])
        out = []
        first = True
        while first or rest:
            first = False
            i = 0
            consumed = False
            while i < len(fmt):
                c = fmt[i]
                if c == '\\' and i + 1 < len(fmt):
                    n = fmt[i + 1]
                    out.append({'n': '\n', 't': '\t', '\\': '\\', '"': '"', "'": "'"}.get(n, '\\' + n))
                    i += 2
                elif c == '%' and i + 1 < len(fmt):
                    n = fmt[i + 1]
                    if n == '%':
                        out.append('%')
                    elif n in 'sqd':
                        a = rest.pop(0) if rest else ''
                        consumed = True
                        if n == 'q':
                            if is_sym(a):
                                out.append(Quoted(a))
                            else:
                                out.append(bash_quote(a))
                        else:
                            out.append(a)
                    else:
                        raise Unsupported('printf conversion %%%s' % n)
                    i += 2
                else:
                    out.append(c)
                    i += 1
            if not consumed:
                break
        if any(isinstance(o, Quoted) for o in out):
            if len(out) != 1:
                raise Unsupported('printf %q of a symbolic string mixed with other text')
            self.out(out[0])
        else:
            self.out(concat(*out))
        return 0

    def b_read(self, args):
        names = [a for a in args if a != '-r']
        raw = '-r' in args
        if not self.stdin or not self.stdin[-1]:
            return 1
        line = self.stdin[-1].pop(0)
        if not isinstance(line, str):
            raise Unsupported('read of a symbolic line')
        ifs = getattr(self, 'temp_ifs', None)
        if ifs is None:
            ifs = ' \t\n'
        # characters with an "escaped" flag: without -r a backslash quotes the next character (which then never
        # splits) and a backslash at the end of the line continues it with the next line
        chars = []
        if raw:
            chars = [(c, False) for c in line]
        else:
            k = 0
            while True:
                if k >= len(line):
                    break
                c = line[k]
                if c == '\\':
                    if k + 1 < len(line):
                        chars.append((line[k + 1], True))
                        k += 2
                        continue
                    # continuation
                    if self.stdin[-1]:
                        line = self.stdin[-1].pop(0)
                        if not isinstance(line, str):
                            raise Unsupported('read of a symbolic line')
                        k = 0
                        continue
                    break
                chars.append((c, False))
                k += 1
        ifs_ws = [c for c in ifs if c in ' \t\n']

        def is_sep(x):
            return (not x[1]) and x[0] in ifs

        def is_ws(x):
            return (not x[1]) and x[0] in ifs_ws

        def lstrip_ws(cs):
            k = 0
            while k < len(cs) and is_ws(cs[k]):
                k += 1
            return cs[k:]

        def rstrip_ws(cs):
            k = len(cs)
            while k > 0 and is_ws(cs[k - 1]):
                k -= 1
            return cs[:k]
        cs = rstrip_ws(lstrip_ws(chars))
        vals = []
        for i, nm in enumerate(names):
            if i == len(names) - 1:
                vals.append(''.join(c for c, _ in cs))
                cs = []
            else:
                k = 0
                while k < len(cs) and not is_sep(cs[k]):
                    k += 1
                vals.append(''.join(c for c, _ in cs[:k]))
                rest = lstrip_ws(cs[k:])
                if k < len(cs) and not is_ws(cs[k]):
                    # a non-whitespace separator: it alone (with surrounding IFS whitespace) delimits
                    rest = lstrip_ws(cs[k + 1:])
                elif rest and is_sep(rest[0]) and not is_ws(rest[0]):
                    rest = lstrip_ws(rest[1:])
                cs = rest
        for nm, v in zip(names, vals):
            self.set_scalar(nm, v)
        return 0

    def b_readarray(self, args):
        if len(args) != 2 or args[0] != '-t':
            raise Unsupported('readarray form')
        lines = self.stdin[-1] if self.stdin else []
        name = self.resolve_name(args[1])
        sc = self.scope_of(name)
        sc[name] = Var('indexed', {i: l for i, l in enumerate(lines)})
        if self.stdin:
            self.stdin[-1] = []
        return 0

    def b_type(self, args):
        if len(args) == 2 and args[0] == '-t':
            if args[1] in self.funcs or args[1] == '_get_comp_words_by_ref':
                self.out('function\n')
                return 0
            return 1
        raise Unsupported('type form')

    def b_bind(self, args):
        if args == ['-v']:
            self.out('set bell-style audible\nset completion-ignore-case off\nset completion-map-case off\n')
            return 0
        raise Unsupported('bind form')

    def b_complete(self, args):
        self.completes.append(list(args))
        return 0

    def b_exit(self, args):
        raise ExitEx(int(args[0]) if args else 0)

    def b_return(self, args):
        rc = 0
        if args:
            if not isinstance(args[0], str):
                raise Unsupported('symbolic return code')
            rc = int(args[0])
        raise ReturnEx(rc)

    def b_break(self, args):
        n = int(args[0]) if args else 1
        if self.loop_depth == 0:
            return 0
        raise BreakEx(min(n, self.loop_depth))

    def b_continue(self, args):
        n = int(args[0]) if args else 1
        if self.loop_depth == 0:
            return 0
        raise ContinueEx(min(n, self.loop_depth))

    def b_eval(self, args):
        for a in args:
            if not isinstance(a, str):
                raise Unsupported('eval of a symbolic string')
        src = ' '.join(args)
        return self.run(parse(src))

    def b_local(self, args):
        return self.declare(args, local=True)

    def b_declare(self, args):
        return self.declare(args, local=len(self.scopes) > 1)

    def declare(self, args, local):
        kind = None
        nameref = False
        for a in args:
            if isinstance(a, str) and a.startswith('-'):
                if a == '-a':
                    kind = 'indexed'
                elif a == '-A':
                    kind = 'assoc'
                elif a == '-n':
                    nameref = True
                else:
                    raise Unsupported('declare option %s' % a)
                continue
            if isinstance(a, tuple) and a[0] == 'assignword':
                name, index, op, value = a[1]
                if index is not None or op != '=':
                    raise Unsupported('declare with subscript')
                sc = self.scopes[-1] if local else self.globals
                if nameref:
                    v = self.expand_assign_value(value)
                    if not isinstance(v, str):
                        raise Unsupported('symbolic nameref target')
                    sc[name] = Var('nameref', v)
                    continue
                if value[0] == 'array':
                    sc[name] = self.build_array(value, kind or 'indexed')
                    continue
                v = self.expand_assign_value(value)
                if kind in ('assoc', 'indexed') and isinstance(v, str) and v.startswith('(') and v.endswith(')'):
                    # local -A t=${assoc[$k]} : the expanded text is re-read as a compound assignment
                    p = P(name + '=' + v)
                    asg = p.try_assignment(True)
                    if asg is None or asg[3][0] != 'array':
                        raise Unsupported('compound re-parse of %r' % v)
                    sc[name] = self.build_array(asg[3], kind)
                    continue
                if kind in ('assoc', 'indexed'):
                    sc[name] = Var(kind, {(0 if kind == 'indexed' else '0'): v} if v != '' else {})
                else:
                    sc[name] = Var('scalar', v)
                continue
            if isinstance(a, str):
                sc = self.scopes[-1] if local else self.globals
                if kind:
                    sc[a] = Var(kind, {})
                else:
                    sc[a] = Var('scalar', '')
                continue
            raise Unsupported('declare argument')
        return 0

    def build_array(self, value, kind):
        d = {}
        nxt = 0
        for key, w in value[1]:
            vals = self.expand_word(w) if key is None else [self.expand_one(w)]
            if key is not None:
                kv = self.expand_one(key)
                if not isinstance(kv, str):
                    raise Unsupported('symbolic array key')
                if kind == 'indexed':
                    kv = self.arith(kv)
                    nxt = kv + 1
                d[kv] = vals[0]
            else:
                if kind == 'assoc':
                    raise Unsupported('associative array element without key')
                for v in vals:
                    d[nxt] = v
                    nxt += 1
        return Var(kind, d)

    def do_assign(self, a, local):
        name, index, op, value = a
        name = self.resolve_name(name)
        if value[0] == 'array':
            cur = self.lookup(name)
            kind = cur.kind if cur is not None and cur.kind in ('indexed', 'assoc') else 'indexed'
            new = self.build_array(value, kind)
            sc = self.scope_of(name)
            if op == '+=' and cur is not None and cur.kind == 'indexed':
                base = (max(cur.val) + 1) if cur.val else 0
                for k in sorted(new.val):
                    cur.val[base + k] = new.val[k]
            elif op == '+=' and cur is not None and cur.kind == 'scalar':
                d = {0: cur.val}
                for k in sorted(new.val):
                    d[1 + k] = new.val[k]
                sc[name] = Var('indexed', d)
            else:
                sc[name] = new
            return
        v = self.expand_assign_value(value)
        if index is not None:
            cur = self.lookup(name)
            if cur is None:
                cur = Var('indexed', {})
                self.scope_of(name)[name] = cur
            iv = self.expand_one(index)
            if not isinstance(iv, str):
                raise Unsupported('symbolic subscript')
            if cur.kind == 'assoc':
                key = iv
            elif cur.kind == 'indexed':
                key = self.arith(iv)
            else:
                raise Unsupported('subscript on scalar')
            if op == '+=':
                v = concat(cur.val.get(key, ''), v)
            cur.val[key] = v
            return
        if op == '+=':
            v = concat(self.get_scalar(name), v)
        self.set_scalar(name, v)

    def expand_assign_value(self, w):
        return self.expand_one(w)

    # -- model of the environment --------------------------------------------------------------
    def b__get_comp_words_by_ref(self, args):
        # the 3-line stub named in the property: words=("${COMP_WORDS[@]}"); cword=$COMP_CWORD
        cw = self.lookup('COMP_WORDS')
        name = self.resolve_name('words')
        self.scope_of(name)[name] = Var('indexed', dict(cw.val))
        self.set_scalar('cword', self.get_scalar('COMP_CWORD'))
        return 0

    def b_cgvprobe(self, args):
        if not args or not isinstance(args[0], str):
            raise Unsupported('cgvprobe id')
        pid = args[0]
        a1 = args[1] if len(args) > 1 else ''
        a2 = args[2] if len(args) > 2 else ''
        self.probe_log.append((pid, a1, a2))
        if pid not in self.probes:
            raise Unsupported('unknown probe %r' % pid)
        self.out(self.probes[pid])
        return 0

    def b_sort(self, args):
        """GNU sort with -k keys under LC_ALL=C: option letters in front of a k (as in -nrk2,2) are global and are
        inherited by every key that has no letters of its own (as -k2,2 in -nrk2,2, or -k3 in -rk3); letters after the
        key positions (-k2,2r) belong to that key only. Fields are separated at blank-to-non-blank transitions and
        include their leading blanks; n compares the leading number (after blanks), otherwise bytes. Lines equal on
        all keys are ordered by the whole line (last resort), reversed under a global r."""
        import functools
        import re as _re
        keys = []
        glob = set()
        for a in args:
            m = _re.fullmatch(r'-([nr]*)(?:k(\d+)(?:,(\d+))?([nr]*))?', a)
            if not m or a == '-':
                raise Unsupported('sort argument %r' % (a,))
            glob |= set(m.group(1))
            if m.group(2):
                keys.append((int(m.group(2)), int(m.group(3)) if m.group(3) else None, set(m.group(4))))
        if not keys:
            raise Unsupported('sort without keys')
        lines = self.stdin[-1] if self.stdin else []
        for l in lines:
            if not isinstance(l, str):
                raise Unsupported('sort of symbolic lines')

        def fields(l):
            out = []
            k = 0
            n = len(l)
            while k < n:
                st = k
                while k < n and l[k] in ' \t':
                    k += 1
                while k < n and l[k] not in ' \t':
                    k += 1
                out.append(l[st:k])
            return out

        def field(l, a, b):
            f = fields(l)
            return ''.join(f[a - 1:(b if b is not None else len(f))])

        def num(x):
            m = _re.match(r'[ \t]*(-?\d*(?:\.\d*)?)', x)
            t = m.group(1) if m else ''
            try:
                return float(t) if t not in ('', '-', '.', '-.') else 0.0
            except ValueError:
                return 0.0

        def cmp(x, y):
            for (a, b, own) in keys:
                fl = own if own else glob
                fx, fy = field(x, a, b), field(y, a, b)
                if 'n' in fl:
                    kx, ky = num(fx), num(fy)
                else:
                    kx, ky = fx.encode(), fy.encode()
                if kx != ky:
                    c = -1 if kx < ky else 1
                    return -c if 'r' in fl else c
            if x != y:
                c = -1 if x.encode() < y.encode() else 1
                return -c if 'r' in glob else c
            return 0
        for l in sorted(lines, key=functools.cmp_to_key(cmp)):
            self.out(l + '\n')
        return 0

    def b_cut(self, args):
        import re as _re
        if len(args) != 2:
            raise Unsupported('cut arguments %r' % (args,))
        spec = {}
        for a in args:
            if a.startswith('-f'):
                spec['f'] = a[2:]
            elif a.startswith('-d') and len(a) == 3:
                spec['d'] = a[2]
            else:
                raise Unsupported('cut argument %r' % (a,))
        m = _re.fullmatch(r'(\d+)(-)?(\d+)?', spec.get('f', ''))
        if not m or 'd' not in spec:
            raise Unsupported('cut arguments %r' % (args,))
        lo = int(m.group(1))
        hi = lo if not m.group(2) else (int(m.group(3)) if m.group(3) else None)
        for l in (self.stdin[-1] if self.stdin else []):
            f = l.split(spec['d'])
            if len(f) == 1:
                self.out(l + '\n')      # lines without the delimiter are passed through
            else:
                self.out(spec['d'].join(f[lo - 1:hi]) + '\n')
        return 0

    # -- arithmetic ----------------------------------------------------------------------------
    def expand_arith_text(self, w):
        parts = []
        for p in w[1]:
            if p[0] == 'lit':
                parts.append(p[1])
            else:
                v = self.expand_part(p, quoted=True)
                if isinstance(v, list):
                    v = v[0] if v else ''
                if isinstance(v, SymLen):
                    raise Unsupported('symbolic length in arithmetic')
                if not isinstance(v, str):
                    raise Unsupported('symbolic value in arithmetic')
                parts.append(v)
        return ''.join(parts)

    def arith(self, text):
        toks = []
        i = 0
        s = text
        while i < len(s):
            c = s[i]
            if c in ' \t\n':
                i += 1
            elif c.isdigit():
                j = i
                while j < len(s) and s[j].isdigit():
                    j += 1
                toks.append(('num', int(s[i:j])))
                i = j
            elif c.isalpha() or c == '_':
                j = i
                while j < len(s) and (s[j].isalnum() or s[j] == '_'):
                    j += 1
                toks.append(('name', s[i:j]))
                i = j
            else:
                for op in ('++', '--', '<=', '>=', '==', '!=', '&&', '||', '+', '-', '*', '/', '%', '<', '>', '=', '(', ')', '!'):
                    if s.startswith(op, i):
                        toks.append(('op', op))
                        i += len(op)
                        break
                else:
                    raise Unsupported('arithmetic token in %r' % text)
        pos = [0]

        def peek():
            return toks[pos[0]] if pos[0] < len(toks) else ('end', None)

        def take():
            t = peek()
            pos[0] += 1
            return t

        def varval(n):
            v = self.get_scalar(n)
            if not isinstance(v, str):
                raise Unsupported('symbolic variable in arithmetic')
            v = v.strip()
            if v == '':
                return 0
            try:
                return int(v)
            except ValueError:
                return self.arith(v)

        def primary():
            t = take()
            if t[0] == 'num':
                return t[1]
            if t[0] == 'name':
                n = t[1]
                nt = peek()
                if nt == ('op', '++'):
                    take()
                    v = varval(n)
                    self.set_scalar(n, str(v + 1))
                    return v
                if nt == ('op', '--'):
                    take()
                    v = varval(n)
                    self.set_scalar(n, str(v - 1))
                    return v
                if nt == ('op', '='):
                    take()
                    v = expr(0)
                    self.set_scalar(n, str(v))
                    return v
                return varval(n)
            if t == ('op', '('):
                v = expr(0)
                if take() != ('op', ')'):
                    raise Unsupported('arithmetic parenthesis')
                return v
            if t == ('op', '-'):
                return -primary()
            if t == ('op', '!'):
                return 0 if primary() else 1
            raise Unsupported('arithmetic expression %r' % text)

        prec = {'||': 1, '&&': 2, '==': 3, '!=': 3, '<': 4, '<=': 4, '>': 4, '>=': 4, '+': 5, '-': 5, '*': 6, '/': 6, '%': 6}

        def expr(minp):
            left = primary()
            while True:
                t = peek()
                if t[0] != 'op' or t[1] not in prec or prec[t[1]] < minp:
                    return left
                op = take()[1]
                right = expr(prec[op] + 1)
                if op == '+':
                    left = left + right
                elif op == '-':
                    left = left - right
                elif op == '*':
                    left = left * right
                elif op == '/':
                    left = int(left / right)
                elif op == '%':
                    left = left % right
                elif op == '<':
                    left = int(left < right)
                elif op == '<=':
                    left = int(left <= right)
                elif op == '>':
                    left = int(left > right)
                elif op == '>=':
                    left = int(left >= right)
                elif op == '==':
                    left = int(left == right)
                elif op == '!=':
                    left = int(left != right)
                elif op == '&&':
                    left = int(bool(left) and bool(right))
                elif op == '||':
                    left = int(bool(left) or bool(right))
        if not toks:
            return 0
        v = expr(0)
        if pos[0] != len(toks):
            raise Unsupported('arithmetic trailing tokens in %r' % text)
        return v

    # -- word expansion ------------------------------------------------------------------------
    def expand_one(self, w):
        """Expansion without word splitting (assignment / [[ ]] operand / quoted contexts)."""
        vals = []
        for p in w[1]:
            v = self.expand_part(p, quoted=True)
            if isinstance(v, list):
                # "${a[@]}" in a scalar context joins with spaces
                out = []
                for i, x in enumerate(v):
                    if i:
                        out.append(' ')
                    out.append(x)
                v = concat(*out) if out else ''
            vals.append(v)
        if len(vals) == 1 and isinstance(vals[0], (Quoted, SymLen)):
            return vals[0]
        for v in vals:
            if isinstance(v, (Quoted, SymLen)):
                raise Unsupported('quoted/length marker inside a larger word')
        return concat(*vals) if vals else ''

    def expand_word(self, w):
        """Full expansion of a command word -> list of fields."""
        fields = [[]]     # list of lists of pieces; a piece: value
        started = [False]

        def add(v):
            fields[-1].append(v)
            started[0] = True

        for p in w[1]:
            k = p[0]
            if k in ('lit', 'sq', 'ansi'):
                add(p[1] if k != 'ansi' else ansi_decode(p[1]))
            elif k == 'dq':
                if not p[1]:
                    add('')
                for q in p[1]:
                    if q[0] == 'lit':
                        add(q[1])
                    else:
                        v = self.expand_part(q, quoted=True)
                        if isinstance(v, list):
                            # "${a[@]}": one field per element
                            if not v:
                                # expands to nothing
                                continue
                            for i, x in enumerate(v):
                                if i:
                                    fields.append([])
                                add(x)
                        else:
                            add(v)
            else:
                v = self.expand_part(p, quoted=False)
                vs = v if isinstance(v, list) else [v]
                for idx, x in enumerate(vs):
                    if idx:
                        fields.append([])
                        started[0] = False
                    if isinstance(x, (Quoted, SymLen)):
                        add(x)
                        continue
                    if not isinstance(x, str):
                        raise Unsupported('unquoted expansion of a symbolic value in a word-splitting context')
                    if any(c in x for c in '*?['):
                        raise Unsupported('unquoted expansion containing glob characters')
                    # word splitting
                    pieces = x.split()
                    if x[:1] in ' \t\n' and fields[-1]:
                        fields.append([])
                    for j, pc in enumerate(pieces):
                        if j:
                            fields.append([])
                        add(pc)
                    if x[-1:] in ' \t\n' and pieces:
                        fields.append([])
        out = []
        for f in fields:
            if not f:
                continue
            if len(f) == 1 and isinstance(f[0], (Quoted, SymLen)):
                out.append(f[0])
            else:
                for x in f:
                    if isinstance(x, (Quoted, SymLen)):
                        raise Unsupported('marker inside a larger word')
                out.append(concat(*f))
        # a word made only of quotes yields one empty field
        if not out and any(p[0] in ('dq', 'sq') for p in w[1]):
            nonempty_array = any(p[0] == 'dq' and any(q[0] == 'param' and q[1].get('index') == '@' for q in p[1]) for p in w[1])
            if not nonempty_array:
                out.append('')
        return out

    def expand_part(self, p, quoted):
        k = p[0]
        if k in ('lit', 'sq'):
            return p[1]
        if k == 'ansi':
            return ansi_decode(p[1])
        if k == 'dq':
            vals = []
            for q in p[1]:
                v = q[1] if q[0] == 'lit' else self.expand_part(q, True)
                if isinstance(v, list):
                    raise Unsupported('array expansion inside a composite quoted string')
                vals.append(v)
            if len(vals) == 1 and isinstance(vals[0], (Quoted, SymLen)):
                return vals[0]
            return concat(*vals) if vals else ''
        if k == 'arithsub':
            return str(self.arith(self.expand_arith_text(p[1])))
        if k == 'cmdsub':
            self.stdout.append([])
            saved = self.snapshot()
            try:
                try:
                    self.run(p[1])
                except ReturnEx:
                    pass
            finally:
                self.restore(saved)
                data = self.stdout.pop()
            if len(data) == 1 and isinstance(data[0], Quoted):
                return data[0]
            for d in data:
                if isinstance(d, Quoted):
                    raise Unsupported('quoted marker mixed in command substitution')
            v = concat(*data) if data else ''
            if isinstance(v, str):
                return v.rstrip('\n')
            # symbolic: strip one trailing newline part if present
            parts = list(v.parts)
            if isinstance(parts[-1], str):
                parts[-1] = parts[-1].rstrip('\n')
            return sym.mk(parts)
        if k == 'param':
            return self.expand_param(p[1])
        raise Unsupported('word part %s' % k)

    def get_array(self, name):
        v = self.lookup(name)
        if v is None:
            return None
        return v

    def elements(self, v):
        if v is None:
            return []
        if v.kind == 'indexed':
            return [v.val[k] for k in sorted(v.val)]
        if v.kind == 'assoc':
            return [v.val[k] for k in assoc_order(list(v.val))]
        return [v.val]

    def expand_param(self, d):
        name = d['name']
        if name == '#' and 'index' not in d and not d.get('length'):
            a = self.lookup('@')
            return str(len(a.val)) if a else '0'
        if name.isdigit():
            a = self.lookup('@')
            idx = int(name) - 1
            val = a.val.get(idx, '') if a is not None and idx >= 0 else ''
            base = val
        elif 'index' in d:
            v = self.lookup(name)
            if d['index'] == '@':
                if d.get('keys'):
                    if v is None:
                        return []
                    if v.kind == 'assoc':
                        return assoc_order(list(v.val))
                    if v.kind == 'indexed':
                        return [str(k) for k in sorted(v.val)]
                    return ['0']
                elems = self.elements(v)
                if d.get('length'):
                    return str(len(elems))
                if d['op'] == '#':
                    pat, quoted = self.pattern_value(d['pattern'])
                    return [self.remove_prefix(e, pat, quoted) for e in elems]
                if d['op'] is not None:
                    raise Unsupported('operator %s on array' % d['op'])
                return elems
            iv = self.expand_one(d['index'])
            if not isinstance(iv, str):
                raise Unsupported('symbolic subscript')
            if v is None:
                base = ''
            elif v.kind == 'assoc':
                base = v.val.get(iv, '')
            elif v.kind == 'indexed':
                base = v.val.get(self.arith(iv), '')
            else:
                base = v.val if self.arith(iv) == 0 else ''
        else:
            base = self.get_scalar(name)
        if d.get('length'):
            if is_sym(base):
                return SymLen(base)
            return str(len(base))
        op = d['op']
        if op is None:
            return base
        if op == 'substr':
            off = self.arith(self.expand_arith_text(d['offset']))
            ln = None
            if d['len'] is not None:
                ln = self.arith(self.expand_arith_text(d['len']))
            return self.substr(base, off, ln)
        if op == ',,':
            if is_sym(base):
                raise Unsupported('case conversion of a symbolic string')
            return base.lower()
        if op == '##':
            return self.remove_longest_prefix(base, d['pattern'])
        if op in ('%', '#'):
            toks = self.mixed_pattern(d['pattern'])
            if toks is not None:
                return self.remove_glob(base, toks, prefix=(op == '#'))
            pat, quoted = self.pattern_value(d['pattern'])
            return self.remove_suffix(base, pat, quoted) if op == '%' else self.remove_prefix(base, pat, quoted)
        raise Unsupported('parameter operator %s' % op)

    # -- string operations that may need symbolic reasoning ---------------------------------------
    def substr(self, base, off, ln):
        if off < 0:
            raise Unsupported('negative offset')
        if isinstance(base, str):
            return base[off:] if ln is None else base[off:off + ln]
        # symbolic: only slices whose position is determined by concrete part lengths
        parts = list(base.parts)
        # fast path: a single slice
        out = []
        pos = 0       # concrete position so far; None when past a variable-length part
        remaining_skip = off
        take = ln
        for i, p in enumerate(parts):
            if isinstance(p, str):
                if remaining_skip >= len(p):
                    remaining_skip -= len(p)
                    continue
                q = p[remaining_skip:]
                remaining_skip = 0
                if take is not None:
                    q = q[:take]
                    take -= len(q)
                out.append(q)
                if take == 0:
                    break
            else:
                last = (i == len(parts) - 1)
                fixed_len = (p.stop - p.start) if p.stop is not None else None
                if fixed_len is not None:
                    # a slice with a concrete stop is only as long as that when the word is long enough;
                    # the script takes such slices only of text it has already matched
                    if not self.decide(sym.length_cmp(SymStr([Slice(p.w, 0, None)]), p.stop, lambda a, b: a >= b)):
                        raise Unsupported('slice of a word shorter than the slice')
                    if remaining_skip >= fixed_len:
                        remaining_skip -= fixed_len
                        continue
                    s0 = p.start + remaining_skip
                    remaining_skip = 0
                    e0 = p.stop
                    if take is not None:
                        e0 = min(e0, s0 + take)
                        take -= (e0 - s0)
                    out.append(Slice(p.w, s0, e0))
                    if take == 0:
                        break
                else:
                    if not last:
                        raise Unsupported('substring across a variable-length part')
                    s0 = p.start + remaining_skip
                    remaining_skip = 0
                    if take is not None:
                        out.append(Slice(p.w, s0, s0 + take))
                    else:
                        out.append(Slice(p.w, s0, None))
        return sym.mk(out)

    def concretize(self, *vals):
        """Decide the length of every symbolic word occurring in vals; returns the assignment."""
        asg = {}
        for w in sym.words_of(*vals):
            for n in range(w.L + 1):
                if self.decide(w.len_is(n)):
                    asg[w] = n
                    break
            else:
                raise Unsupported('no feasible length')
        return asg

    def from_chars(self, chars):
        parts = []
        for c in chars:
            if isinstance(c, str):
                parts.append(c)
            else:
                parts.append(Slice(c[0], c[1], c[1] + 1))
        return sym.mk(parts)

    def remove_longest_prefix(self, base, pattern_word):
        """${x##*c} with a concrete single character c (the COMP_WORDBREAKS loop)."""
        pv = []
        for p in pattern_word[1]:
            if p[0] == 'lit':
                pv.append(('pat', p[1]))
            else:
                pv.append(('val', self.expand_part(p, quoted=False)))
        if len(pv) == 2 and pv[0] == ('pat', '*') and pv[1][0] == 'val' and isinstance(pv[1][1], str) and len(pv[1][1]) == 1:
            c = pv[1][1]
            if c in '*?[\\' and pattern_word[1][1][0] not in ('dq', 'sq'):
                raise Unsupported('word-break character %r is a glob character' % c)
            if isinstance(base, str):
                j = base.rfind(c)
                return base if j < 0 else base[j + 1:]
            asg = self.concretize(base)
            chars = sym.expand(base, asg)
            for j in range(len(chars) - 1, -1, -1):
                if self.decide(sym.char_eq(chars[j], c)):
                    return self.from_chars(chars[j + 1:])
            return base
        raise Unsupported('pattern form in ${x##...}')

    def unquoted_tokens(self, pat, what):
        """A pattern that came from an unquoted expansion: None if it is literal text (then the literal value
        is literal_value(pat)), else its glob tokens."""
        if isinstance(pat, Quoted):
            return None
        if isinstance(pat, str):
            if any(c in pat for c in '*?[\\'):
                return sym.parse_glob(pat)
            return None
        if self.glob_free:
            self.sites.add(what)
            return None
        if not any(c in w.alphabet for w in sym.words_of(pat) for c in '*?'):
            return None
        return self.glob_tokens(pat)

    def glob_tokens(self, pat):
        """Tokens of an unquoted pattern whose text is symbolic: which positions hold * or ? is decided per
        path; the other characters stay symbolic. ([ and backslash are outside the alphabet.)"""
        for w in sym.words_of(pat):
            if any(c in w.alphabet for c in '[\\'):
                raise Unsupported('symbolic pattern over an alphabet with [ or backslash')
        asg = self.concretize(pat)
        toks = []
        for ch in sym.expand(pat, asg):
            if isinstance(ch, str):
                t = sym.parse_glob(ch)[0]
            elif self.decide(sym.char_eq(ch, '*')):
                t = ('star',)
            elif self.decide(sym.char_eq(ch, '?')):
                t = ('any1',)
            else:
                t = ('c', ch)
            if t == ('star',) and toks and toks[-1] == ('star',):
                continue
            toks.append(t)
        return toks

    def remove_glob(self, base, toks, prefix):
        """${x#pattern} / ${x%pattern} (shortest match) with glob tokens"""
        if isinstance(base, str):
            bc = list(base)
        else:
            asg = self.concretize(base)
            bc = sym.expand(base, asg)
        n = len(bc)
        for k in range(n + 1):
            part = bc[:k] if prefix else bc[n - k:]
            if self.decide(sym.glob_match_seq(toks, part)):
                rest = bc[k:] if prefix else bc[:n - k]
                return self.from_chars(rest) if not isinstance(base, str) else ''.join(rest)
        return base

    def pattern_value(self, w):
        """-> (value, quoted): quoted = every part of the pattern word is quoted, i.e. it is literal text"""
        quoted = bool(w[1]) and all(p[0] in ('dq', 'sq') for p in w[1])
        return self.expand_one(w), quoted

    def remove_suffix(self, base, pat, quoted=False):
        if not quoted:
            toks = self.unquoted_tokens(pat, '${x%pat}')
            if toks is not None:
                return self.remove_glob(base, toks, prefix=False)
            if isinstance(pat, Quoted):
                pat = pat.inner
        elif isinstance(pat, (Quoted, SymLen)):
            raise Unsupported('marker in quoted pattern')
        if isinstance(base, str) and isinstance(pat, str):
            if pat == '':
                return base
            return base[:-len(pat)] if base.endswith(pat) else base
        asg = self.concretize(base, pat)
        bc, pc = sym.expand(base, asg), sym.expand(pat, asg)
        if len(pc) <= len(bc) and self.decide(sym.seq_eq(bc[len(bc) - len(pc):], pc)):
            return self.from_chars(bc[:len(bc) - len(pc)])
        return base

    def remove_prefix(self, base, pat, quoted=False):
        if not quoted:
            toks = self.unquoted_tokens(pat, '${x#pat}')
            if toks is not None:
                return self.remove_glob(base, toks, prefix=True)
            if isinstance(pat, Quoted):
                pat = pat.inner
        elif isinstance(pat, (Quoted, SymLen)):
            raise Unsupported('marker in quoted pattern')
        if isinstance(base, str) and isinstance(pat, str):
            return base[len(pat):] if base.startswith(pat) else base
        asg = self.concretize(base, pat)
        bc, pc = sym.expand(base, asg), sym.expand(pat, asg)
        if len(pc) <= len(bc) and self.decide(sym.seq_eq(bc[:len(pc)], pc)):
            return self.from_chars(bc[len(pc):])
        return base

    # -- [[ ]] ----------------------------------------------------------------------------------
    def eval_cond(self, e):
        k = e[0]
        if k == 'not':
            return not self.eval_cond(e[1])
        if k == 'land':
            return self.eval_cond(e[1]) and self.eval_cond(e[2])
        if k == 'lor':
            return self.eval_cond(e[1]) or self.eval_cond(e[2])
        if k == 'str':
            v = self.expand_one(e[1])
            return not self.decide(sym.is_empty(v))
        if k == 'un':
            op = e[1]
            v = self.expand_one(e[2])
            if op == '-z':
                return self.decide(sym.is_empty(v))
            if op == '-n':
                return not self.decide(sym.is_empty(v))
            if op == '-v':
                if not isinstance(v, str):
                    raise Unsupported('-v on symbolic name')
                return self.is_set(v)
        if k == 'bin':
            op = e[1]
            if op in ('-lt', '-le', '-gt', '-ge', '-eq', '-ne'):
                a = self.expand_one(e[2])
                b = self.expand_one(e[3])
                import operator
                f = {'-lt': operator.lt, '-le': operator.le, '-gt': operator.gt, '-ge': operator.ge,
                     '-eq': operator.eq, '-ne': operator.ne}[op]
                if isinstance(a, SymLen) or isinstance(b, SymLen):
                    def conv(x):
                        if isinstance(x, SymLen):
                            return x.s
                        return self.arith(x)
                    return self.decide(sym.length_cmp(conv(a), conv(b), f))
                if not isinstance(a, str) or not isinstance(b, str):
                    raise Unsupported('numeric comparison of symbolic strings')
                return f(self.arith(a), self.arith(b))
            if op in ('==', '=', '!='):
                subject = self.expand_one(e[2])
                r = self.match_pattern(subject, e[3])
                return (not r) if op == '!=' else r
        raise Unsupported('[[ ]] expression %r' % (e[:2],))

    def is_set(self, ref):
        if '[' in ref and ref.endswith(']'):
            name, key = ref[:-1].split('[', 1)
            v = self.lookup(name)
            if v is None:
                return False
            if v.kind == 'assoc':
                return key in v.val
            if v.kind == 'indexed':
                return self.arith(key) in v.val
            return self.arith(key) == 0
        return self.lookup(ref) is not None

    def pieces_tokens(self, pieces):
        toks = []
        for kind, v in pieces:
            if kind == 'toks':
                new = v
            elif kind == 'glob':
                new = sym.parse_glob(v)
            elif isinstance(v, str):
                new = [('c', c) for c in v]
            else:
                new = [('c', c) for c in sym.expand(v, self.concretize(v))]
            for t in new:
                if t == ('star',) and toks and toks[-1] == ('star',):
                    continue
                toks.append(t)
        return toks

    def mixed_pattern(self, w):
        """a pattern word made of quoted and unquoted parts where an unquoted part has glob characters -> tokens, else None"""
        parts = w[1]
        if len(parts) < 2:
            return None
        if not any(p[0] == 'lit' and any(c in p[1] for c in '*?[') for p in parts):
            return None
        return self.pieces_tokens(self.pattern_pieces(w))

    def pattern_pieces(self, pattern_word):
        """pieces of a pattern word: ('lit', value) quoted text, ('glob', str) unquoted concrete text, ('toks', tokens)"""
        pieces = []
        for p in pattern_word[1]:
            k = p[0]
            if k == 'lit':
                pieces.append(('glob', p[1]))
            elif k in ('sq', 'ansi'):
                pieces.append(('lit', self.expand_part(p, True)))
            elif k == 'dq':
                v = self.expand_part(p, True)
                if isinstance(v, Quoted):
                    raise Unsupported('quoted marker inside quotes')
                pieces.append(('lit', v))
            else:
                v = self.expand_part(p, False)
                if isinstance(v, list):
                    raise Unsupported('array in pattern')
                if isinstance(v, Quoted):
                    pieces.append(('lit', v.inner))
                elif isinstance(v, SymLen):
                    raise Unsupported('length in pattern')
                elif isinstance(v, str):
                    pieces.append(('glob', v))
                else:
                    toks = self.unquoted_tokens(v, '[[ x == $symbolic ]]')
                    if toks is None:
                        pieces.append(('lit', v))
                    else:
                        pieces.append(('toks', toks))
        return pieces

    def match_pattern(self, subject, pattern_word):
        """[[ subject == pattern ]]: quoted pieces are literal, unquoted pieces are glob text."""
        if isinstance(subject, (Quoted, SymLen)):
            raise Unsupported('marker as pattern subject')
        pieces = self.pattern_pieces(pattern_word)
        if any(kind == 'toks' for kind, _ in pieces):
            toks = self.pieces_tokens(pieces)
            if isinstance(subject, str):
                return self.decide(sym.glob_match_seq(toks, list(subject)))
            return self.decide(sym.glob_match(toks, subject))
        all_concrete = all(isinstance(v, str) for _, v in pieces)
        if all_concrete:
            pat = ''.join((v if kind == 'glob' else ''.join('\\' + c for c in v)) for kind, v in pieces)
            toks = sym.parse_glob(pat)
            if isinstance(subject, str):
                r = sym.glob_match_seq(toks, list(subject))
                return bool(r)
            return self.decide(sym.glob_match(toks, subject))
        # symbolic literal pieces: supported shapes are LITERAL and LITERAL*
        lits = []
        star = False
        for i, (kind, v) in enumerate(pieces):
            if kind == 'lit':
                if star:
                    raise Unsupported('pattern shape: text after *')
                lits.append(v)
            else:
                if v == '*' and i == len(pieces) - 1:
                    star = True
                elif v == '':
                    continue
                elif any(c in v for c in '*?[\\'):
                    raise Unsupported('pattern shape with symbolic text and glob %r' % v)
                else:
                    if star:
                        raise Unsupported('pattern shape: text after *')
                    lits.append(v)
        lit = concat(*lits) if lits else ''
        if star:
            return self.decide(sym.startswith(subject, lit))
        return self.decide(sym.eq(subject, lit))


def load_script(interp, text):
    ast = parse(text)
    try:
        interp.run(ast)
    except ExitEx as e:
        raise Unsupported('script exits with %d while being sourced' % e.rc)
    return ast


def run_completion(interp, fn, words, cword):
    """Set COMP_WORDS/COMP_CWORD, call the completion function; -> (rc, COMPREPLY list)"""
    interp.globals['COMP_WORDS'] = Var('indexed', {i: w for i, w in enumerate(words)})
    interp.globals['COMP_CWORD'] = Var('scalar', str(cword))
    interp.globals.pop('COMPREPLY', None)
    interp.invocations = []
    interp.probe_log = []
    rc = interp.call_function(fn, [])
    v = interp.lookup('COMPREPLY')
    reply = interp.elements(v) if v is not None else []
    return rc, reply
