"""Parser for the bash subset that complgen's bash emitter produces (and nothing more).

Anything outside the subset raises Unsupported with the source line -- the caller turns that into
an inconclusive verdict (exit 2), never into a pass.

AST (tuples):
  ('list', [stmt...])
  ('simple', assigns, words, redirs, line)
      assigns: [(name, index Word|None, op, value)]   value: Word or ('array', [(key Word|None, Word)...])
  ('pipeline', [stmt...])
  ('and', a, b) / ('or', a, b)
  ('cond', expr, line)             [[ ... ]]
  ('arith', Word, line)            (( ... ))
  ('if', [(cond, body)...], else|None)
  ('while', cond, body)
  ('for_in', var, [Word...], body)
  ('for_arith', init Word, cond Word, step Word, body)
  ('func', name, body)
  ('brace', body)
Word: ('word', [part...]); part:
  ('lit', s) | ('sq', s) | ('dq', [part...]) | ('param', dict) | ('cmdsub', ast) | ('arithsub', Word)
  | ('procsub', ast) | ('ansi', s)
[[ ]] expr: ('not', e) | ('land', a, b) | ('lor', a, b) | ('un', op, Word) | ('bin', op, Word, Word) | ('str', Word)
"""


class Unsupported(Exception):
    pass


RESERVED = {'if', 'then', 'elif', 'else', 'fi', 'while', 'do', 'done', 'for', 'in', '{', '}', 'function', 'case', 'esac', 'until', 'select'}
NAME_START = 'abcdefghijklmnopqrstuvwxyzABCDEFGHIJKLMNOPQRSTUVWXYZ_'
NAME_CHARS = NAME_START + '0123456789'
WORD_BREAK = ' \t\n;&|()<>'


class P:
    def __init__(self, src):
        self.s = src
        self.i = 0

    # -- low level ----------------------------------------------------------------------------
    def line(self):
        return self.s.count('\n', 0, self.i) + 1

    def fail(self, msg):
        raise Unsupported('line %d: %s: %r' % (self.line(), msg, self.s[self.i:self.i + 40]))

    def peek(self, n=1):
        return self.s[self.i:self.i + n]

    def eof(self):
        return self.i >= len(self.s)

    def skip_blank(self):
        while not self.eof():
            c = self.s[self.i]
            if c in ' \t':
                self.i += 1
            elif c == '\\' and self.peek(2) == '\\\n':
                self.i += 2
            elif c == '#' and (self.i == 0 or self.s[self.i - 1] in ' \t\n;'):
                while not self.eof() and self.s[self.i] != '\n':
                    self.i += 1
            else:
                break

    def skip_newlines(self):
        while True:
            self.skip_blank()
            if not self.eof() and self.s[self.i] in '\n;':
                self.i += 1
            else:
                break

    def at_word(self, w):
        """is the next token exactly the reserved word w"""
        self.skip_blank()
        if self.s.startswith(w, self.i):
            j = self.i + len(w)
            if j >= len(self.s) or self.s[j] in WORD_BREAK:
                return True
        return False

    def expect_word(self, w):
        if not self.at_word(w):
            self.fail('expected %r' % w)
        self.i += len(w)

    # -- lists ---------------------------------------------------------------------------------
    def parse_list(self, terminators):
        """statements until one of the reserved words / closers in terminators"""
        stmts = []
        while True:
            self.skip_newlines()
            if self.eof():
                break
            if any(self.at_word(t) for t in terminators if t.isalpha() or t in '{}'):
                break
            if any(self.s.startswith(t, self.i) for t in terminators if not (t.isalpha() or t in '{}')):
                break
            stmts.append(self.parse_andor())
            self.skip_blank()
            if not self.eof() and self.s[self.i] in ';\n':
                self.i += 1
            elif not self.eof() and self.s[self.i] == '&' and self.peek(2) != '&&':
                self.fail('background jobs')
        return ('list', stmts)

    def parse_andor(self):
        left = self.parse_pipeline()
        while True:
            self.skip_blank()
            if self.peek(2) == '&&':
                self.i += 2
                self.skip_newlines()
                right = self.parse_pipeline()
                left = ('and', left, right)
            elif self.peek(2) == '||':
                self.i += 2
                self.skip_newlines()
                right = self.parse_pipeline()
                left = ('or', left, right)
            else:
                return left

    def parse_pipeline(self):
        cmds = [self.parse_command()]
        while True:
            self.skip_blank()
            if self.peek(1) == '|' and self.peek(2) != '||':
                self.i += 1
                self.skip_newlines()
                cmds.append(self.parse_command())
            else:
                break
        if len(cmds) == 1:
            return cmds[0]
        return ('pipeline', cmds)

    # -- commands ------------------------------------------------------------------------------
    def parse_command(self):
        self.skip_blank()
        if self.peek(2) == '[[':
            return self.parse_cond()
        if self.peek(2) == '((':
            line = self.line()
            self.i += 2
            w = self.parse_arith_until('))')
            return ('arith', w, line)
        if self.at_word('if'):
            return self.parse_if()
        if self.at_word('while'):
            self.i += 5
            cond = self.parse_list(['do'])
            self.expect_word('do')
            body = self.parse_list(['done'])
            self.expect_word('done')
            return ('while', cond, body)
        if self.at_word('for'):
            return self.parse_for()
        if self.at_word('{'):
            self.i += 1
            body = self.parse_list(['}'])
            self.expect_word('}')
            return ('brace', body)
        for r in ('case', 'until', 'select', 'function'):
            if self.at_word(r):
                self.fail('construct %r' % r)
        return self.parse_simple()

    def parse_if(self):
        self.expect_word('if')
        clauses = []
        cond = self.parse_list(['then'])
        self.expect_word('then')
        body = self.parse_list(['elif', 'else', 'fi'])
        clauses.append((cond, body))
        els = None
        while True:
            if self.at_word('elif'):
                self.i += 4
                cond = self.parse_list(['then'])
                self.expect_word('then')
                body = self.parse_list(['elif', 'else', 'fi'])
                clauses.append((cond, body))
            elif self.at_word('else'):
                self.i += 4
                els = self.parse_list(['fi'])
            else:
                break
        self.expect_word('fi')
        return ('if', clauses, els)

    def parse_for(self):
        self.expect_word('for')
        self.skip_blank()
        if self.peek(2) == '((':
            self.i += 2
            init = self.parse_arith_until(';')
            cond = self.parse_arith_until(';')
            step = self.parse_arith_until('))')
            self.skip_blank()
            if self.peek(1) == ';':
                self.i += 1
            self.skip_newlines()
            if self.at_word('do'):
                self.i += 2
                body = self.parse_list(['done'])
                self.expect_word('done')
            elif self.at_word('{'):
                self.i += 1
                body = self.parse_list(['}'])
                self.expect_word('}')
            else:
                self.fail('for (( )) body')
            return ('for_arith', init, cond, step, body)
        name = self.parse_name()
        if name is None:
            self.fail('for variable')
        self.skip_blank()
        words = []
        if self.at_word('in'):
            self.i += 2
            while True:
                self.skip_blank()
                if self.eof() or self.s[self.i] in ';\n':
                    break
                words.append(self.parse_word())
        else:
            self.fail('for without in')
        self.skip_newlines()
        self.expect_word('do')
        body = self.parse_list(['done'])
        self.expect_word('done')
        return ('for_in', name, words, body)

    def parse_name(self):
        self.skip_blank()
        j = self.i
        if j < len(self.s) and self.s[j] in NAME_START:
            while j < len(self.s) and self.s[j] in NAME_CHARS:
                j += 1
            name = self.s[self.i:j]
            self.i = j
            return name
        return None

    def parse_simple(self):
        line = self.line()
        assigns = []
        words = []
        redirs = []
        while True:
            self.skip_blank()
            if self.eof():
                break
            c = self.s[self.i]
            if c in ';\n|&)':
                break
            if c == '}' and not words and not assigns:
                break
            if c == '<' and self.peek(3) == '< <' or (c == '<' and self.peek(2) == '<('):
                # "< <(...)" or "<(...)"
                if self.peek(3) == '< <':
                    self.i += 2
                    if self.peek(2) != '<(':
                        self.fail('redirect')
                    self.i += 2
                    ast = self.parse_list([')'])
                    if self.peek(1) != ')':
                        self.fail('unterminated <( )')
                    self.i += 1
                    redirs.append(('stdin_procsub', ast))
                    continue
                self.fail('process substitution as word')
            if c in '<>':
                self.fail('redirection')
            if c == '(':
                # function definition: name () { ... }
                if len(words) == 1 and not assigns and self.s[self.i:].lstrip('(').lstrip(' ').startswith(')'):
                    self.i += 1
                    self.skip_blank()
                    if self.peek(1) != ')':
                        self.fail('function definition')
                    self.i += 1
                    self.skip_newlines()
                    if not self.at_word('{'):
                        self.fail('function body')
                    self.i += 1
                    body = self.parse_list(['}'])
                    self.expect_word('}')
                    nm = words[0]
                    if len(nm[1]) != 1 or nm[1][0][0] != 'lit':
                        self.fail('function name')
                    return ('func', nm[1][0][1], body)
                self.fail('subshell')
            # assignment?
            a = self.try_assignment(allow_plain=(not words))
            if a is not None:
                if words:
                    # argument of local/declare etc: keep as an assignment-shaped word
                    words.append(('assignword', a))
                else:
                    assigns.append(a)
                continue
            words.append(self.parse_word())
        if not words and not assigns:
            self.fail('empty command')
        return ('simple', assigns, words, redirs, line)

    def try_assignment(self, allow_plain):
        """NAME=word | NAME+=word | NAME=(...) | NAME+=(...) | NAME[idx]=word"""
        j = self.i
        s = self.s
        if j >= len(s) or s[j] not in NAME_START:
            return None
        while j < len(s) and s[j] in NAME_CHARS:
            j += 1
        name = s[self.i:j]
        index = None
        save = self.i
        if j < len(s) and s[j] == '[':
            # index expression up to matching ]
            self.i = j + 1
            index = self.parse_word(stop=']')
            if self.peek(1) != ']':
                self.i = save
                return None
            self.i += 1
            j = self.i
        if s.startswith('+=', j):
            op = '+='
            j += 2
        elif s.startswith('=', j):
            op = '='
            j += 1
        else:
            self.i = save
            return None
        self.i = j
        if self.peek(1) == '(':
            self.i += 1
            elems = []
            while True:
                self.skip_newlines()
                if self.eof():
                    self.fail('unterminated array')
                if self.peek(1) == ')':
                    self.i += 1
                    break
                key = None
                if self.peek(1) == '[':
                    k0 = self.i
                    self.i += 1
                    key = self.parse_word(stop=']')
                    if self.peek(2) == ']=':
                        self.i += 2
                    else:
                        self.i = k0
                        key = None
                elems.append((key, self.parse_word()))
            return (name, index, op, ('array', elems))
        if not self.eof() and self.s[self.i] not in WORD_BREAK:
            val = self.parse_word()
        else:
            val = ('word', [])
        return (name, index, op, val)

    # -- words ---------------------------------------------------------------------------------
    def parse_word(self, stop=None):
        parts = []
        lit = []

        def flush():
            if lit:
                parts.append(('lit', ''.join(lit)))
                del lit[:]

        while not self.eof():
            c = self.s[self.i]
            if stop is not None and c == stop:
                break
            if stop is None and c in WORD_BREAK:
                break
            if stop is not None and c in '\n':
                break
            if c == '\\':
                if self.i + 1 < len(self.s):
                    if self.s[self.i + 1] == '\n':
                        self.i += 2
                        continue
                    flush()
                    parts.append(('sq', self.s[self.i + 1]))
                    self.i += 2
                    continue
                self.fail('trailing backslash')
            if c == "'":
                j = self.s.find("'", self.i + 1)
                if j < 0:
                    self.fail('unterminated single quote')
                flush()
                parts.append(('sq', self.s[self.i + 1:j]))
                self.i = j + 1
                continue
            if c == '"':
                flush()
                self.i += 1
                parts.append(('dq', self.parse_dq()))
                continue
            if c == '$':
                if self.peek(2) == "$'":
                    j = self.i + 2
                    while j < len(self.s) and self.s[j] != "'":
                        j += 2 if self.s[j] == '\\' else 1
                    if j >= len(self.s):
                        self.fail('unterminated $\' quote')
                    flush()
                    parts.append(('ansi', self.s[self.i + 2:j]))
                    self.i = j + 1
                    continue
                p = self.parse_dollar()
                if p is None:
                    lit.append('$')
                    self.i += 1
                else:
                    flush()
                    parts.append(p)
                continue
            if c == '`':
                self.fail('backquote')
            lit.append(c)
            self.i += 1
        flush()
        return ('word', parts)

    def parse_dq(self):
        parts = []
        lit = []

        def flush():
            if lit:
                parts.append(('lit', ''.join(lit)))
                del lit[:]

        while True:
            if self.eof():
                self.fail('unterminated double quote')
            c = self.s[self.i]
            if c == '"':
                self.i += 1
                break
            if c == '\\':
                n = self.s[self.i + 1] if self.i + 1 < len(self.s) else ''
                if n in '$`"\\':
                    lit.append(n)
                    self.i += 2
                elif n == '\n':
                    self.i += 2
                else:
                    lit.append('\\')
                    self.i += 1
                continue
            if c == '$':
                p = self.parse_dollar()
                if p is None:
                    lit.append('$')
                    self.i += 1
                else:
                    flush()
                    parts.append(p)
                continue
            if c == '`':
                self.fail('backquote')
            lit.append(c)
            self.i += 1
        flush()
        return parts

    def parse_dollar(self):
        """at '$': returns a part or None (a literal dollar)"""
        s = self.s
        if s.startswith('$((', self.i):
            self.i += 3
            w = self.parse_arith_until('))')
            return ('arithsub', w)
        if s.startswith('$(', self.i):
            self.i += 2
            ast = self.parse_list([')'])
            self.skip_newlines()
            if self.peek(1) != ')':
                self.fail('unterminated $( )')
            self.i += 1
            return ('cmdsub', ast)
        if s.startswith('${', self.i):
            self.i += 2
            return self.parse_braced_param()
        j = self.i + 1
        if j < len(s) and s[j] in NAME_START:
            k = j
            while k < len(s) and s[k] in NAME_CHARS:
                k += 1
            self.i = k
            return ('param', {'name': s[j:k], 'op': None})
        if j < len(s) and s[j] in '#?@*0123456789':
            self.i = j + 1
            return ('param', {'name': s[j], 'op': None})
        return None

    def parse_braced_param(self):
        s = self.s
        d = {'op': None}
        if self.peek(1) == '#' and self.s[self.i + 1] not in '}':
            d['length'] = True
            self.i += 1
        if self.peek(1) == '!':
            d['keys'] = True
            self.i += 1
        # name
        j = self.i
        if j < len(s) and s[j] in NAME_START:
            while j < len(s) and s[j] in NAME_CHARS:
                j += 1
        elif j < len(s) and s[j] in '#?@*0123456789':
            j += 1
        elif j < len(s) and s[j] == '$':
            # ${$name[...]} appears only inside strings that are eval'ed after substitution
            self.fail('indirect parameter')
        else:
            self.fail('parameter name')
        d['name'] = s[self.i:j]
        self.i = j
        if self.peek(1) == '[':
            self.i += 1
            if self.peek(2) in ('@]', '*]'):
                d['index'] = '@'
                self.i += 2
            else:
                d['index'] = self.parse_word(stop=']')
                if self.peek(1) != ']':
                    self.fail('index')
                self.i += 1
        c = self.peek(1)
        if c == '}':
            self.i += 1
            return ('param', d)
        if c == ':':
            n = self.peek(2)
            if n in (':-', ':=', ':?', ':+'):
                self.fail('default-value expansion')
            self.i += 1
            off = self.parse_word(stop_set=':}')
            ln = None
            if self.peek(1) == ':':
                self.i += 1
                ln = self.parse_word(stop_set='}')
            if self.peek(1) != '}':
                self.fail('substring expansion')
            self.i += 1
            d['op'] = 'substr'
            d['offset'] = off
            d['len'] = ln
            return ('param', d)
        for op in ('##', '#', '%%', '%', ',,', '^^', ',', '^', '//', '/'):
            if s.startswith(op, self.i):
                self.i += len(op)
                if op in (',,',):
                    if self.peek(1) != '}':
                        self.fail('case modification with pattern')
                    self.i += 1
                    d['op'] = op
                    return ('param', d)
                if op in ('^^', ',', '^', '//', '/'):
                    self.fail('expansion operator %s' % op)
                pat = self.parse_word(stop_set='}')
                if self.peek(1) != '}':
                    self.fail('pattern removal')
                self.i += 1
                d['op'] = op
                d['pattern'] = pat
                return ('param', d)
        self.fail('parameter expansion')

    def parse_arith_until(self, closer):
        """raw arithmetic text as a Word (expansions kept), up to closer (not nested beyond parens)"""
        parts = []
        lit = []
        depth = 0

        def flush():
            if lit:
                parts.append(('lit', ''.join(lit)))
                del lit[:]

        while True:
            if self.eof():
                self.fail('unterminated arithmetic')
            if depth == 0 and self.s.startswith(closer, self.i):
                self.i += len(closer)
                break
            c = self.s[self.i]
            if c == '(':
                depth += 1
            elif c == ')':
                depth -= 1
            if c == '$':
                p = self.parse_dollar()
                if p is None:
                    lit.append('$')
                    self.i += 1
                else:
                    flush()
                    parts.append(p)
                continue
            lit.append(c)
            self.i += 1
        flush()
        return ('word', parts)

    # -- [[ ]] ---------------------------------------------------------------------------------
    def parse_cond(self):
        line = self.line()
        self.i += 2
        e = self.cond_or()
        self.skip_blank()
        if self.peek(2) != ']]':
            self.fail('expected ]]')
        self.i += 2
        return ('cond', e, line)

    def cond_or(self):
        left = self.cond_and()
        while True:
            self.skip_blank()
            if self.peek(2) == '||':
                self.i += 2
                left = ('lor', left, self.cond_and())
            else:
                return left

    def cond_and(self):
        left = self.cond_primary()
        while True:
            self.skip_blank()
            if self.peek(2) == '&&':
                self.i += 2
                left = ('land', left, self.cond_primary())
            else:
                return left

    def cond_word(self):
        self.skip_blank()
        return self.parse_word(cond=True)

    def cond_primary(self):
        self.skip_blank()
        if self.peek(1) == '!' and self.peek(2) in ('! ', '!\t'):
            self.i += 1
            return ('not', self.cond_primary())
        if self.peek(1) == '(':
            self.fail('parenthesised [[ ]] expression')
        if self.peek(1) == '-' and self.s[self.i + 1:self.i + 2].isalpha() and self.s[self.i + 2:self.i + 3] in ' \t':
            op = self.s[self.i:self.i + 2]
            if op in ('-v', '-z', '-n'):
                self.i += 2
                return ('un', op, self.cond_word())
            self.fail('unary test %s' % op)
        left = self.cond_word()
        self.skip_blank()
        for op in ('==', '!=', '=~', '=', '-lt', '-le', '-gt', '-ge', '-eq', '-ne', '<', '>'):
            if self.s.startswith(op, self.i) and self.s[self.i + len(op):self.i + len(op) + 1] in ' \t':
                if op in ('=~', '<', '>'):
                    self.fail('operator %s in [[ ]]' % op)
                self.i += len(op)
                right = self.cond_word()
                return ('bin', op, left, right)
        return ('str', left)


# parse_word with extra stop handling ----------------------------------------------------------
_orig_parse_word = P.parse_word


def _parse_word(self, stop=None, stop_set=None, cond=False):
    if stop_set is None and not cond:
        return _orig_parse_word(self, stop)
    parts = []
    lit = []

    def flush():
        if lit:
            parts.append(('lit', ''.join(lit)))
            del lit[:]

    while not self.eof():
        c = self.s[self.i]
        if stop_set is not None and c in stop_set:
            break
        if cond:
            if c in ' \t\n':
                break
            if c == ']' and self.peek(2) == ']]':
                break
            if c in '&|' and self.peek(2) in ('&&', '||'):
                break
        if c == '\\':
            if self.i + 1 < len(self.s):
                flush()
                parts.append(('sq', self.s[self.i + 1]))
                self.i += 2
                continue
            self.fail('trailing backslash')
        if c == "'":
            j = self.s.find("'", self.i + 1)
            if j < 0:
                self.fail('unterminated single quote')
            flush()
            parts.append(('sq', self.s[self.i + 1:j]))
            self.i = j + 1
            continue
        if c == '"':
            flush()
            self.i += 1
            parts.append(('dq', self.parse_dq()))
            continue
        if c == '$':
            if self.peek(2) == "$'":
                j = self.i + 2
                while j < len(self.s) and self.s[j] != "'":
                    j += 2 if self.s[j] == '\\' else 1
                if j >= len(self.s):
                    self.fail('unterminated $\' quote')
                flush()
                parts.append(('ansi', self.s[self.i + 2:j]))
                self.i = j + 1
                continue
            p = self.parse_dollar()
            if p is None:
                lit.append('$')
                self.i += 1
            else:
                flush()
                parts.append(p)
            continue
        if c == '`':
            self.fail('backquote')
        lit.append(c)
        self.i += 1
    flush()
    return ('word', parts)


P.parse_word = _parse_word


def parse(src):
    p = P(src)
    ast = p.parse_list([])
    p.skip_newlines()
    if not p.eof():
        p.fail('trailing input')
    return ast
