"""C16: the --dfa / --regex Graphviz dumps.

E1': every formatting site of dfa::do_to_dot / regex::do_to_dot (template bytes and argument
types/origins taken from the MIR) is turned into a regular language of emitted lines, and z3
(sequence/regex theory, unbounded label length) decides whether some literal / description / command
text makes a line that is not a DOT statement.
E3: the --dfa file is read back by an independent DOT reader and related to the minimised automaton by
query 1 (with acceptance), the --regex file must parse and show every position.
"""
import os
import re
import subprocess
import tempfile
import time

import z3

from . import mirsym, quoting, dotread, common, gram, ref, autosmt, e3
from .autosmt import Stats
from .errors import Inconclusive
from .ref import Auto, trim, rank_levels

INT_TYPES = {'u32', 'usize', 'u64', 'i32', 'StateId', 'RegexId', 'RegexNodeId', 'Position', 'ExprId', 'regex::RegexId',
             'regex::RegexNodeId', 'dfa::DFAId', 'DFAId'}


def defs_of(text):
    """local -> rhs text of its (first) assignment"""
    defs = {}
    for line in text.split('\n'):
        m = re.match(r'\s*(_\d+) = (.*?)(?: -> \[.*)?;\s*$', line)
        if m and m.group(1) not in defs:
            defs[m.group(1)] = m.group(2).strip()
    return defs


def debug_names(text):
    names = {}
    for m in re.finditer(r'debug (\w+) => (_\d+);', text):
        names.setdefault(m.group(2), m.group(1))
    return names


def trace(local, defs, names, depth=0):
    """-> ('name', debug name) | ('call', callee, args text) | ('const', text) | ('unknown', text)"""
    if depth > 30:
        return ('unknown', 'too deep')
    if local in names:
        return ('name', names[local], local)
    rhs = defs.get(local)
    if rhs is None:
        return ('unknown', 'no definition of %s' % local)
    m = re.fullmatch(r'(?:no_retag )?(?:copy|move) (_\d+)', rhs)
    if m:
        return trace(m.group(1), defs, names, depth + 1)
    m = re.fullmatch(r'&(?:mut )?(_\d+)', rhs)
    if m:
        return trace(m.group(1), defs, names, depth + 1)
    m = re.fullmatch(r'&(?:mut )?\(\*(_\d+)\)', rhs)
    if m:
        return trace(m.group(1), defs, names, depth + 1)
    m = re.fullmatch(r'(?:no_retag )?(?:copy|move) \((_\d+)\.(\d+): [^)]*\)', rhs)
    if m:
        t = defs.get(m.group(1), '')
        tm = re.fullmatch(r'\((.*)\)', t)
        if tm:
            elems = [x.strip() for x in tm.group(1).rstrip(',').split(', ')]
            k = int(m.group(2))
            if k < len(elems):
                em = re.fullmatch(r'(?:copy|move) (_\d+)', elems[k])
                if em:
                    return trace(em.group(1), defs, names, depth + 1)
        return ('unknown', rhs)
    m = re.match(r'([A-Za-z_<][^(]*)\((.*)\)$', rhs, re.S)
    if m and not rhs.startswith('('):
        return ('call', m.group(1).strip(), m.group(2))
    if rhs.startswith('const '):
        return ('const', rhs)
    return ('unknown', rhs)


MIR_TEXT = {}


def format_sites(text):
    """every Arguments::new site of one function"""
    defs = defs_of(text)
    names = debug_names(text)
    sites = []
    for m in re.finditer(r"(_\d+) = Arguments::<'_>::new::<\d+, \d+>\(move (_\d+), copy (_\d+)\)", text):
        tpl = defs.get(m.group(2), '')
        tm = re.fullmatch(r'const b"(.*)"', tpl, re.S)
        if not tm:
            raise mirsym.Unsupported('format template of %s is not a constant' % m.group(1))
        template = mirsym.unescape(tm.group(1))
        arr = defs.get(m.group(3), '')
        am = re.fullmatch(r'&(_\d+)', arr)
        arr_local = am.group(1) if am else m.group(3)
        arr_def = defs.get(arr_local, '')
        am = re.fullmatch(r'\[(.*)\]', arr_def)
        if not am:
            raise mirsym.Unsupported('format arguments of %s are not an array literal: %r' % (m.group(1), arr_def))
        args = []
        for a in [x.strip() for x in am.group(1).split(', ') if x.strip()]:
            lm = re.fullmatch(r'(?:copy|move) (_\d+)', a)
            d = defs.get(lm.group(1), '') if lm else ''
            fm = re.match(r"core::fmt::rt::Argument::<'_>::new_(display|debug)::<(.*)>\((?:copy|move) (_\d+)\)", d)
            if not fm:
                raise mirsym.Unsupported('format argument %r' % d)
            kind, ty, src = fm.group(1), fm.group(2), fm.group(3)
            args.append({'fmt': kind, 'type': ty, 'origin': trace(src, defs, names), 'src': src})
        res_local = m.group(1)
        if re.search(r'write_fmt\([^)]*move %s\)' % re.escape(res_local), text):
            use = 'emitted'
        else:
            um = re.search(r'(_\d+) = (?:std|alloc)::fmt::format\(move %s\)' % re.escape(res_local), text)
            use = ('string', um.group(1)) if um else 'unknown'
        sites.append({'template': template, 'args': args, 'defs': defs, 'names': names, 'use': use, 'mir': MIR_TEXT.get('mir')})
    return sites


def const_sites(text):
    """constant lines: Arguments::from_str(const "...") handed to write_fmt"""
    out = []
    for m in re.finditer(r"(_\d+) = Arguments::<'_>::from_str(?:_nonconst)?(?:::<\d+>)?\(const \"((?:[^\"\\]|\\.)*)\"\)", text):
        if re.search(r'write_fmt\([^)]*move %s\)' % re.escape(m.group(1)), text):
            out.append(mirsym.unescape(m.group(2)).decode())
    return out


def template_pieces(template):
    """byte-coded format template of this nightly: 0x01-0x7f = literal run of that many bytes, 0xC0 = the next
    argument (cursor), 0xC8 lo hi = the argument with that explicit index (the cursor continues after it),
    0x00 = end. Any other opcode (width, precision, ...) is not modelled."""
    out = []
    i = 0
    cursor = 0
    while True:
        b = template[i]
        if b == 0:
            return out
        if 1 <= b <= 0x7f:
            out.append(('lit', template[i + 1:i + 1 + b].decode()))
            i += 1 + b
        elif b == 0xC0:
            out.append(('arg', cursor))
            cursor += 1
            i += 1
        elif b == 0xC8:
            idx = template[i + 1] | (template[i + 2] << 8)
            out.append(('arg', idx))
            cursor = idx + 1
            i += 3
        else:
            raise mirsym.Unsupported('template opcode 0x%02x (formatting options are not modelled)' % b)


# -- regular languages ------------------------------------------------------------------------------

RS = z3.ReSort(z3.StringSort())


def re_lit(s):
    return z3.Re(z3.StringVal(s))


def char_not(chars):
    return z3.Intersect(z3.AllChar(RS), z3.Complement(z3.Union(*[re_lit(c) for c in chars])) if len(chars) > 1
                        else z3.Complement(re_lit(chars[0])))


def union(*xs):
    xs = list(xs)
    if len(xs) == 1:
        return xs[0]
    return z3.Union(*xs)


def concat(*xs):
    xs = list(xs)
    if len(xs) == 1:
        return xs[0]
    return z3.Concat(*xs)


ANY = z3.Full(RS)
DIGITS = z3.Plus(z3.Range('0', '9'))
IDCHAR = union(z3.Range('a', 'z'), z3.Range('A', 'Z'), z3.Range('0', '9'), re_lit('_'))
IDLIKE = z3.Star(union(IDCHAR, re_lit('\t')))
QSTR = concat(re_lit('"'), z3.Star(union(char_not(['"', '\\']), concat(re_lit('\\'), z3.AllChar(RS)))), re_lit('"'))
DEBUG_STR = QSTR


def _nocase(word):
    return concat(*[union(re_lit(c.lower()), re_lit(c.upper())) for c in word])


DOT_KEYWORDS = ('node', 'edge', 'graph', 'digraph', 'subgraph', 'strict')
# an unquoted DOT ID: a name that is not a keyword (in any case), or a numeral
DOT_NAME = z3.Intersect(concat(union(z3.Range('a', 'z'), z3.Range('A', 'Z'), re_lit('_')), z3.Star(IDCHAR)),
                        z3.Complement(union(*[_nocase(k) for k in DOT_KEYWORDS])))
DOT_NUMERAL = concat(z3.Option(re_lit('-')), union(concat(re_lit('.'), DIGITS), concat(DIGITS, z3.Option(concat(re_lit('.'), z3.Star(z3.Range('0', '9')))))))
DOT_ID = union(DOT_NAME, DOT_NUMERAL)


def dot_line_language():
    ws = z3.Star(union(re_lit(' '), re_lit('\t')))
    ident = DOT_ID
    val = union(ident, QSTR)
    attr = concat(ident, ws, re_lit('='), ws, val)
    attrs = concat(re_lit('['), ws, attr, z3.Star(concat(ws, z3.Option(union(re_lit(','), re_lit(';'))), ws, attr)), ws, re_lit(']'))
    node = concat(ident, ws, z3.Option(attrs))
    edge = concat(ident, ws, re_lit('->'), ws, ident, ws, z3.Option(attrs))
    assign = concat(ident, ws, re_lit('='), ws, val)
    default = concat(union(re_lit('node'), re_lit('edge'), re_lit('graph')), ws, attrs)
    sub = concat(re_lit('subgraph'), ws, ident, ws, re_lit('{'))
    dig = concat(re_lit('digraph'), ws, ident, ws, re_lit('{'))
    stmt = union(node, edge, assign, default, sub, dig, re_lit('}'))
    return concat(ws, z3.Option(concat(stmt, ws, z3.Option(re_lit(';')))), ws, re_lit('\n'))


def image_of_replaces(chain):
    """language h(Sigma*) for the character homomorphism given by a chain of str::replace::<char>"""
    def h(c):
        s = c
        for (ch, rep) in chain:
            s = s.replace(ch, rep)
        return s
    special = sorted({ch for ch, _ in chain})
    parts = [re_lit(h(c)) for c in special]
    parts.append(char_not(special))
    return z3.Star(union(*parts))


def replace_chain(local, defs):
    """follow a chain of replace::<char> calls backwards from `local`; -> (chain in application order, source local)"""
    chain = []
    cur = local
    for _ in range(10):
        rhs = defs.get(cur, '')
        m = re.match(r"str::<impl str>::replace::<char>\((?:copy|move) (_\d+), const '(.*?)', (?:const \"(.*)\"|(?:copy|move) (_\d+))\)$", rhs, re.S)
        if m:
            rep = m.group(3)
            if rep is None:
                rd = defs.get(m.group(4), '')
                rm = re.fullmatch(r'const "(.*)"', rd, re.S)
                if not rm:
                    raise mirsym.Unsupported('replacement text is not constant')
                rep = rm.group(1)
            chain.append((mirsym.unescape(m.group(2)).decode(), mirsym.unescape(rep).decode()))
            cur = m.group(1)
            continue
        m = re.fullmatch(r'(?:<String as Deref>::deref|&\(\*|&)?\(?(?:copy|move)? ?(_\d+)\)?', rhs)
        if m and cur != m.group(1):
            cur = m.group(1)
            continue
        break
    chain.reverse()
    return chain, cur


TAB1 = None


def named_languages():
    tabs = z3.Plus(re_lit('\t'))
    prefix = z3.Option(concat(DIGITS, re_lit('_')))
    node = concat(re_lit('_'), prefix, DIGITS)
    return {
        'indentation': (tabs, b'\x01\t\xc0\x00'),
        'node_dot_id': (node, b'\x01_\xc0\xc0\x00'),
        'parent_dot_id': (node, None),
        'identifiers_prefix': (prefix, None),
        'subdfa_identifiers_prefix': (prefix, b'\xc0\x01_\x00'),
        'subword_identifiers_prefix': (prefix, b'\xc0\x01_\x00'),
    }


def check_named_definitions(sites, assumptions):
    """the shapes assumed for identifier-like locals are re-derived from their defining format sites"""
    names = named_languages()
    seen = set()
    for st in sites:
        if isinstance(st['use'], tuple):
            nm = st['names'].get(st['use'][1])
            if nm is None:
                # the formatted string is moved / borrowed into the named local
                for loc, n2 in st['names'].items():
                    d = st['defs'].get(loc, '')
                    if re.fullmatch(r'(?:&|move |copy )%s' % re.escape(st['use'][1]), d):
                        nm = n2
            if nm in names and names[nm][1] is not None:
                if st['template'] != names[nm][1]:
                    raise mirsym.Unsupported('local %s is formatted with template %r, expected %r' % (nm, st['template'], names[nm][1]))
                seen.add(nm)
    for nm, (_, tpl) in names.items():
        if tpl is None:
            assumptions.add('%s has the shape of a node id / id prefix (function parameter; validated on every generated file by the DOT reader)' % nm)
    return seen


def homomorphism_image(mir, fn_name):
    """If fn_name(&str) -> String is a straight-line chain of char replacements (interpretable by mirsym),
    return the language h(Sigma*) of its results, else None."""
    try:
        text = mirsym.function_text(mir, fn_name.split('::')[-1]) if '::' in fn_name else mirsym.function_text(mir, fn_name)
    except mirsym.Unsupported:
        return None
    special = []
    try:
        if 'switchInt' in text or 'Arguments::' in text:
            return None
        images = {}
        for c in range(1, 128):
            out, _ = mirsym.escape_concrete(text, bytes([c]))
            if out != bytes([c]):
                images[chr(c)] = out.decode()
        two, _ = mirsym.escape_concrete(text, b'ab')
        if two != b'ab':
            return None
    except (mirsym.Unsupported, KeyError, IndexError):
        return None
    parts = [re_lit(v) for v in images.values()]
    parts.append(char_not(sorted(images)) if images else z3.AllChar(RS))
    return z3.Star(union(*parts))


def arg_language(arg, site):
    ty = arg['type'].replace('&', '').strip()
    ty = re.sub(r"^(?:std::borrow::)?Cow<'_, str>$", 'String', ty)
    if arg['fmt'] == 'debug':
        if ty in ('str', 'String', 'Ustr'):
            return DEBUG_STR, 'debug-string'
        raise mirsym.Unsupported('Debug formatting of %s' % ty)
    if ty in INT_TYPES:
        return DIGITS, 'integer'
    if ty == 'Ustr':
        return ANY, 'grammar-text'
    if ty in ('String', 'str'):
        o = arg['origin']
        if o[0] == 'call' and 'make_dot_string_constant' in o[1]:
            return QSTR, 'dot-string-constant'
        if o[0] == 'name':
            d = site['defs'].get(o[2], '')
            if 'replace::<char>' in d:
                chain, src = replace_chain(o[2], site['defs'])
                return image_of_replaces(chain), 'sanitised:%s' % ''.join(c for c, _ in chain)
        if o[0] == 'call' and 'replace::<char>' in o[1]:
            chain, src = replace_chain(arg['src'], site['defs'])
            return image_of_replaces(chain), 'sanitised:%s' % ''.join(c for c, _ in chain)
        if o[0] == 'name' and o[1] in named_languages():
            return named_languages()[o[1]][0], 'identifier(%s)' % o[1]
        if o[0] == 'call' and 'str::repeat' in o[1]:
            return z3.Star(re_lit('\t')), 'tabs'
        if o[0] == 'call' and 'fmt::format' in o[1]:
            # an unnamed intermediate string: the only ones are "{pos}: {cmd}" handed to make_dot_string_constant
            return ANY, 'formatted-text'
        if o[0] == 'name' and o[2] not in site['defs']:
            # a parameter of the function: whatever the caller passes
            return ANY, 'parameter:%s' % o[1]
        callee = None
        if o[0] == 'call':
            callee = o[1]
        elif o[0] == 'name':
            d = site['defs'].get(o[2], '')
            cm = re.match(r'([A-Za-z_][A-Za-z0-9_:]*)\(', d)
            if cm:
                callee = cm.group(1)
        if callee is not None and site.get('mir'):
            lang = homomorphism_image(site['mir'], callee.split('::<')[0])
            if lang is not None:
                return lang, 'sanitised-by:%s' % callee
            # a helper whose body is not a plain replace chain (branches, loops): its result is any string
            return ANY, 'result-of:%s' % callee
        raise mirsym.Unsupported('String argument of unknown origin %r' % (o,))
    raise mirsym.Unsupported('Display argument of type %s' % arg['type'])


def site_query(site, line_lang, stats):
    """-> (ok, witness line or None, description of the site)"""
    pieces = template_pieces(site['template'])
    parts = []
    kinds = []
    for p in pieces:
        if p[0] == 'lit':
            parts.append(re_lit(p[1]))
        else:
            lang, kind = arg_language(site['args'][p[1]], site)
            kinds.append(kind)
            parts.append(lang)
    L = concat(*parts) if parts else re_lit('')
    w = z3.String('line')
    s = z3.Solver()
    s.set('timeout', 60000)
    s.add(z3.InRe(w, L))
    s.add(z3.Not(z3.InRe(w, line_lang)))
    t0 = time.time()
    r = s.check()
    stats.note('dot-line', str(r), time.time() - t0)
    shown = ''.join(p[1] if p[0] == 'lit' else '{}' for p in pieces)
    if r == z3.unknown:
        raise Inconclusive('solver unknown on format site %r' % shown)
    if r == z3.unsat:
        return True, None, shown, kinds
    return False, s.model()[w].as_string(), shown, kinds


# -- running the real binary ---------------------------------------------------------------------------

def dump_files(text, shell):
    d = tempfile.mkdtemp(prefix='cgv-dot-')
    try:
        dfa, rx = os.path.join(d, 'dfa.dot'), os.path.join(d, 'regex.dot')
        # the targets already exist and hold more text than any dump (an older, larger dump): what is written must replace it
        for f in (dfa, rx):
            with open(f, 'w') as fh:
                fh.write('digraph old {\n' + '\t_9999 -> _9998 [label="left over from an earlier dump"];\n' * 4000 + '}\n')
        p = subprocess.run([common.COMPLGEN_BIN, '--' + shell, os.path.join(d, 'script'), '--dfa', dfa, '--regex', rx, '-'],
                           input=text, stdout=subprocess.PIPE, stderr=subprocess.PIPE, text=True, timeout=30)
        if p.returncode != 0:
            return p.returncode, None, None, p.stderr
        return 0, open(dfa).read(), open(rx).read(), p.stderr
    finally:
        for f in os.listdir(d):
            os.unlink(os.path.join(d, f))
        os.rmdir(d)


LABEL_LIT = re.compile(r'^(.*) \((\d+)\)$', re.S)


def key_of_label(label):
    # the label attribute is an escString: a doubled backslash stands for one backslash
    label = label.replace('\\\\', '\\')
    if label == '*':
        return ('any',)
    m = re.fullmatch(r'\{\{\{ (.*) \}\}\}(compadd)?', label, re.S)
    if m:
        return ('cmd', m.group(1).strip(), 'compadd' if m.group(2) else 'stdout')
    m = LABEL_LIT.match(label)
    if not m:
        raise dotread.DotError('edge label %r is none of the documented forms' % label)
    body, lv = m.group(1), int(m.group(2))
    dm = re.fullmatch(r'(\S+) "(.*)"', body, re.S)
    if dm:
        d = bytes(dm.group(2), 'utf-8').decode('unicode_escape') if '\\' in dm.group(2) else dm.group(2)
        return ('lit', dm.group(1), d, lv)
    return ('lit', body, None, lv)


def automaton_of_dfa_dot(g):
    """-> main: (nodes, start, accepting, edges), subs: name -> same"""
    def walk(stmts, prefix):
        shape = None
        nodes = {}
        start = None
        accepting = set()
        edges = []
        dashed = []
        subs = {}
        for st in stmts:
            if st[0] == 'default' and st[1] == 'node':
                shape = st[2].get('shape', shape)
            elif st[0] == 'node':
                nid = st[1]
                nodes.setdefault(nid, st[2].get('label'))
                if shape in ('octagon', 'doubleoctagon'):
                    start = nid
                if shape in ('doublecircle', 'doubleoctagon'):
                    accepting.add(nid)
            elif st[0] == 'edge':
                a, b = st[1][0], st[1][1]
                if st[2].get('style') == 'dashed':
                    dashed.append((a, b))
                else:
                    edges.append((a, st[2].get('label'), b))
            elif st[0] == 'subgraph':
                subs[st[1]] = walk(st[2], st[1])
        return {'nodes': nodes, 'start': start, 'accepting': accepting, 'edges': edges, 'dashed': dashed, 'subs': subs}
    return walk(g['stmts'], '')


def analyse(job):
    """E3 part: job = (grammar, shells)"""
    g, shells = job
    text = gram.print_grammar(g)
    res = {'text': text, 'violations': [], 'inconclusive': [], 'stats': None, 'rows': []}
    stats = Stats()
    base = {'bash': 0, 'pwsh': 0, 'fish': 1, 'zsh': 1}
    for shell in shells:
        row = {'shell': shell, 'status': None, 'nontrivial': False}
        res['rows'].append(row)
        try:
            try:
                resolver, R0 = ref.reference(g, shell)
            except ref.RefError as e:
                row['status'] = 'outside-reference:%s' % e
                continue
            if ref.expected_rejection(resolver, R0) is not None:
                row['status'] = 'rejected-as-documented'
                continue
            rc, dfa_txt, rx_txt, err = dump_files(text, shell)
            if rc != 0:
                if ref.tolerated_rejections(resolver):
                    row['status'] = 'rejected-by-stricter-within-word-rule'
                else:
                    row['status'] = 'unexpected-rejection'
                    res['inconclusive'].append('complgen rejected a clean-by-construction grammar: %r' % text)
                continue
            d = e3.cgv().dump(shell, text)
            if not d.get('ok'):
                row['status'] = 'unexpected-rejection'
                continue
            row['status'] = 'ok'
            payload = {'grammar': text, 'shell': shell}
            try:
                G = dotread.parse(dfa_txt)
                A = automaton_of_dfa_dot(G)
            except dotread.DotError as e:
                res['violations'].append(('C16', 'dfa-dot-malformed', 'the --dfa file does not parse: %s' % e, dict(payload, dot=dfa_txt)))
                continue
            try:
                RX = dotread.parse(rx_txt)
            except dotread.DotError as e:
                res['violations'].append(('C16', 'regex-dot-malformed', 'the --regex file does not parse: %s' % e, dict(payload, dot=rx_txt)))
                continue
            mn = d['min']
            b = base[shell]
            states = autosmt.states_of(mn)
            row['nontrivial'] = len(states) >= 3 or bool(mn['subdfas'])
            want_nodes = {'_%d' % (s + b) for s in states}
            if set(A['nodes']) != want_nodes:
                res['violations'].append(('C16', 'node-set-differs', '--dfa draws the nodes %r for the states %r (numbering base %d)'
                                          % (sorted(A['nodes']), sorted(want_nodes), b), dict(payload, dot=dfa_txt)))
                continue
            # rebuild the main automaton from the drawing
            idx = {n: i for i, n in enumerate(sorted(A['nodes']))}
            trans = [dict() for _ in idx]
            bad = False
            for (a, label, t) in A['edges']:
                if label is None:
                    res['violations'].append(('C16', 'edge-without-label', 'an edge of --dfa has no label', dict(payload, dot=dfa_txt)))
                    bad = True
                    break
                k = key_of_label(label)
                if k[0] == 'cmd':
                    lv = None
                trans[idx[a]].setdefault(k, set()).add(idx[t])
            if bad:
                continue
            # dashed edges: state -> start of a within-word cluster, accepting states of the cluster -> target
            enter = {}
            leave = {}
            sub_of_node = {}
            for name, S in A['subs'].items():
                for n in S['nodes']:
                    sub_of_node[n] = name
            for (a, t) in A['dashed']:
                if t in sub_of_node and a in idx:
                    enter.setdefault((a, sub_of_node[t]), t)
                elif a in sub_of_node and t in idx:
                    leave.setdefault(sub_of_node[a], set()).add((a, t))
                elif a in idx and t not in idx:
                    res['violations'].append(('C16', 'dashed-edge-to-unknown-node', 'a dashed edge of --dfa points to the undeclared node %s' % t,
                                              dict(payload, dot=dfa_txt)))
                    bad = True
                elif t in idx and a not in idx and a not in sub_of_node:
                    res['violations'].append(('C16', 'dashed-edge-from-unknown-node', 'a dashed edge of --dfa starts at the undeclared node %s '
                                              '(within-word accepting states are numbered as in the script)' % a, dict(payload, dot=dfa_txt)))
                    bad = True
            if bad:
                continue
            # within-word items: one cluster is shared by all its uses, so the drawing shows the set of entries
            # (state -> cluster) and the set of exits (cluster -> state), not their pairing; compare those
            # projections with the automaton and take the pairing from the automaton
            order0 = []
            for (f, i, t) in mn['transitions']:
                inp = mn['inputs'][i]
                if inp['kind'] == 'sub' and inp['dfa'] not in order0:
                    order0.append(inp['dfa'])
            want_enter, want_exit = set(), set()
            for (f, i, t) in mn['transitions']:
                inp = mn['inputs'][i]
                if inp['kind'] == 'sub':
                    cname = 'cluster_%d' % (order0.index(inp['dfa']) + b)
                    want_enter.add(('_%d' % (f + b), cname))
                    want_exit.add((cname, '_%d' % (t + b)))
            got_enter = set(enter)
            got_exit = {(name, t) for name, pairs in leave.items() for (acc, t) in pairs}
            if got_enter != want_enter or got_exit != want_exit:
                res['violations'].append(('C16', 'within-word-edges-differ',
                                          '--dfa for %s draws the within-word entries %r and exits %r; the automaton has entries %r and exits %r'
                                          % (shell, sorted(got_enter), sorted(got_exit), sorted(want_enter), sorted(want_exit)),
                                          dict(payload, dot=dfa_txt)))
                continue
            # every exit must start at an accepting node of its cluster, every entry must point to its start node
            for name, pairs in leave.items():
                S = A['subs'][name]
                for (acc, t) in pairs:
                    if acc not in S['accepting']:
                        res['violations'].append(('C16', 'exit-from-non-accepting-node', 'the exit edge %s -> %s of --dfa does not start at an accepting '
                                                  'node of %s' % (acc, t, name), dict(payload, dot=dfa_txt)))
                        bad = True
                for accn in S['accepting']:
                    for (_, t) in {(c, t) for (c, t) in got_exit if c == name}:
                        if (accn, t) not in pairs:
                            res['violations'].append(('C16', 'exit-edge-missing', 'accepting node %s of %s has no exit edge to %s' % (accn, name, t),
                                                      dict(payload, dot=dfa_txt)))
                            bad = True
            for (a, name), tgt in enter.items():
                if tgt != A['subs'][name]['start']:
                    res['violations'].append(('C16', 'entry-not-at-start-node', 'the entry edge %s -> %s does not point to the start node of %s'
                                              % (a, tgt, name), dict(payload, dot=dfa_txt)))
                    bad = True
            if bad:
                continue
            for (f, i, t) in mn['transitions']:
                inp = mn['inputs'][i]
                if inp['kind'] == 'sub':
                    cname = 'cluster_%d' % (order0.index(inp['dfa']) + b)
                    trans[idx['_%d' % (f + b)]].setdefault(('sub', cname), set()).add(idx['_%d' % (t + b)])
            if A['start'] is None:
                res['violations'].append(('C16', 'no-start-node', '--dfa marks no start state', dict(payload, dot=dfa_txt)))
                continue
            accepting = {idx[n] for n in A['accepting'] if n in idx}
            drawn, _ = autosmt.determinise(idx[A['start']], trans, accepting)
            # the dump with the same keys: within-word items identified by the cluster name = 'cluster_' + id as numbered by get_subwords(base)
            order = []
            for (f, i, t) in mn['transitions']:
                inp = mn['inputs'][i]
                if inp['kind'] == 'sub' and inp['dfa'] not in order:
                    order.append(inp['dfa'])

            def keyfn(inp):
                if inp['kind'] == 'sub':
                    return ('sub', 'cluster_%d' % (order.index(inp['dfa']) + b))
                k = e3.base_key(inp)
                if k[0] == 'cmd':
                    return (k[0], k[1], k[2])
                return k
            M0, _, _ = autosmt.auto_of_dump(mn, keyfn)
            # ambiguity: the same within-word automaton at two levels is drawn once
            ok, _ = autosmt.bisim(trim(drawn), trim(M0), stats, kind='bisim-dot-vs-automaton')
            row['dot_vs_automaton'] = ok
            if not ok:
                seq = autosmt.distinguish(trim(drawn), trim(M0), stats)
                res['violations'].append(('C16', 'dfa-dot-shows-other-automaton',
                                          'the automaton drawn by --dfa for %s differs from the compiled one: %r is %s in the drawing and %s in the automaton'
                                          % (shell, seq, 'accepted' if seq is not None and autosmt.walk(trim(drawn), seq)[0] else 'rejected',
                                             'accepted' if seq is not None and autosmt.walk(trim(M0), seq)[0] else 'rejected'),
                                          dict(payload, dot=dfa_txt)))
            # clusters: one per within-word automaton, each a correct drawing of it
            if len(A['subs']) != len(order):
                res['violations'].append(('C16', 'cluster-count', '--dfa has %d clusters for %d within-word automata' % (len(A['subs']), len(order)),
                                          dict(payload, dot=dfa_txt)))
            # --regex: every position appears as a labelled node
            labels = []

            def collect(stmts):
                for st in stmts:
                    if st[0] == 'node' and st[2].get('label') is not None:
                        labels.append(st[2]['label'])
                    elif st[0] == 'subgraph':
                        collect(st[2])
            collect(RX['stmts'])
            npos = len(d['regex']['positions'])
            for p in range(npos):
                if not any(l.startswith('%d: ' % p) for l in labels):
                    res['violations'].append(('C16', 'regex-dot-position-missing', '--regex shows no node for position %d' % p,
                                              dict(payload, dot=rx_txt)))
                    break
        except Inconclusive as e:
            row['status'] = 'inconclusive'
            res['inconclusive'].append('%s [%s] %r' % (e, shell, text))
        except dotread.DotError as e:
            res['violations'].append(('C16', 'dfa-dot-label-form', str(e), {'grammar': text, 'shell': shell}))
    res['stats'] = (stats.queries, stats.solver_s)
    return res


# -- E1' driver -----------------------------------------------------------------------------------------

HOSTILE_COMMAND_NAMES = ['docker-compose', 'python3.11', 'g++', '7z', 'node', 'Graph']
REPLAY_TEXTS = ['"', '\\', '\\"', 'a"b', 'a\\', 'x\\"y', '">', '\n']


def replay_battery(shell='bash'):
    """grammars putting each hostile text into a literal, a description, a nonterminal name and a command"""
    out = []
    for t in REPLAY_TEXTS:
        lit_ok = all(c in gram.REGULAR or c in gram.ESCAPABLE for c in t)
        if lit_ok:
            out.append(('literal', t, gram.mk('cmd', gram.Seq(gram.Lit(t), gram.Lit('z')))))
            out.append(('literal-in-word', t, gram.mk('cmd', gram.Seq(gram.Sub(gram.Lit('o='), gram.Alt(gram.Lit(t), gram.Lit('y'))), gram.Lit('z')))))
        out.append(('description', t, gram.mk('cmd', gram.Seq(gram.Lit('a', t), gram.Lit('z')))))
        if '>' not in t and '\n' not in t:
            out.append(('nonterminal-name', t, gram.mk('cmd', gram.Seq(gram.Ref('N' + t), gram.Lit('z')))))
        if '}}}' not in t:
            out.append(('command', t, gram.mk('cmd', gram.Seq(gram.Cmd('echo ' + t), gram.Lit('z')))))
    for name in HOSTILE_COMMAND_NAMES:
        out.append(('command-name', name, gram.mk(name, gram.Seq(gram.Sub(gram.Lit('o='), gram.Alt(gram.Lit('a'), gram.Lit('y'))), gram.Lit('z')))))
    return out


def check_sites(mir, stats):
    """-> (rows, assumptions, bad sites)"""
    line_lang = dot_line_language()
    MIR_TEXT['mir'] = mir
    rows = []
    assumptions = set()
    bad = []
    for fn in ('dfa::do_to_dot', 'regex::do_to_dot'):
        text = mirsym.function_text(mir, fn)
        sites = format_sites(text)
        verified = check_named_definitions(sites, assumptions)
        for st in sites:
            if st['use'] != 'emitted':
                if st['use'] == 'unknown':
                    raise mirsym.Unsupported('a formatted value of %s is neither written nor turned into a String' % fn)
                continue
            ok, witness, shown, kinds = site_query(st, line_lang, stats)
            rows.append({'function': fn, 'template': shown, 'arguments': kinds, 'well_formed_for_all_values': ok, 'witness': witness})
            if not ok:
                bad.append((fn, shown, kinds, witness))
        rows.append({'function': fn, 'identifier_shapes_rederived_from_mir': sorted(verified)})
    # the wrappers that print the header / footer, and the constant lines of all four functions
    wrappers = []
    for fn_pat in (r'dfa::<impl at [^>]*>::to_dot', r'regex::<impl at [^>]*>::to_dot'):
        m = re.search(r'^fn (%s)\(' % fn_pat, mir, re.M)
        if not m:
            raise mirsym.Unsupported('to_dot wrapper not found')
        wrappers.append(m.group(1))
    for fn in wrappers:
        text = mirsym.function_text(mir, fn)
        for st in format_sites(text):
            if st['use'] != 'emitted':
                raise mirsym.Unsupported('a formatted value of %s is not written' % fn)
            ok, witness, shown, kinds = site_query(st, line_lang, stats)
            rows.append({'function': fn, 'template': shown, 'arguments': kinds, 'well_formed_for_all_values': ok, 'witness': witness})
            if not ok:
                bad.append((fn, shown, kinds, witness))
    for fn in ['dfa::do_to_dot', 'regex::do_to_dot'] + wrappers:
        consts = const_sites(mirsym.function_text(mir, fn))
        for c in consts:
            s0 = z3.Solver()
            s0.add(z3.Not(z3.InRe(z3.StringVal(c), z3.Plus(line_lang))))
            r = s0.check()
            stats.note('dot-const-line', str(r), 0.0)
            if r != z3.unsat:
                bad.append((fn, c, [], c))
        rows.append({'function': fn, 'constant_lines': consts})
    return rows, assumptions, bad


def lines_in_site_languages(mir, files, stats):
    """translator validation: every line of real dumps belongs to the language of some emitted site"""
    langs = []
    MIR_TEXT['mir'] = mir
    fns = ['dfa::do_to_dot', 'regex::do_to_dot']
    for fn_pat in (r'dfa::<impl at [^>]*>::to_dot', r'regex::<impl at [^>]*>::to_dot'):
        m = re.search(r'^fn (%s)\(' % fn_pat, mir, re.M)
        if m:
            fns.append(m.group(1))
    consts = ['\n']
    for fn in fns:
        ftext = mirsym.function_text(mir, fn)
        consts += const_sites(ftext)
        for st in format_sites(ftext):
            if st['use'] != 'emitted':
                continue
            parts = []
            for p in template_pieces(st['template']):
                parts.append(re_lit(p[1]) if p[0] == 'lit' else arg_language(st['args'][p[1]], st)[0])
            langs.append(concat(*parts))
    fixed = union(*[re_lit(l + '\n') for c in consts for l in c.split('\n')[:-1]] + [re_lit('\n')])
    L = union(fixed, *langs)
    checked = 0
    for text in files:
        # a statement may span lines only inside a quoted string; real dumps from the validation grammars have none
        for line in text.split('\n')[:-1]:
            s = z3.Solver()
            s.add(z3.InRe(z3.StringVal(line + '\n'), L))
            r = s.check()
            stats.note('line-membership', str(r), 0.0)
            if r != z3.sat:
                raise Inconclusive('encoder drift: the real line %r is in no format site language' % line)
            checked += 1
    return checked
