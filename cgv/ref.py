"""Reference semantics of .usage grammars, written from the documentation (README, CHANGELOG,
the comments the properties quote), *not* from complgen's passes. Input is the generator's own
tree (gram.py); complgen's parser is never consulted.

Item keys
  ('lit', text, descr|None, level)
  ('cmd', text, kind, level)          kind in {'stdout', 'compadd'}
  ('any',)                            undefined nonterminal / <_>: matches any single word
  ('sub', class_id, level)            within-word expression, identified by the canonical minimal
                                      automaton of its item language (so two spellings of the same
                                      within-word language are one item -- C09's reading)

Regular expressions over keys are hash-consed tuples with ACI-normalising smart constructors, and the
reference automaton is built with Brzozowski derivatives (a different construction from the
followpos construction under test).
"""
from . import gram

BUILTIN = {
    'PATH': {
        'bash': 'compgen -A file -- "$1"',
        'fish': '__fish_complete_path "$argv[1]"',
        'zsh': '_path_files',
        'pwsh': 'Get-ChildItem | ForEach-Object { $_.Name }',
    },
    'DIRECTORY': {
        'bash': 'compgen -A directory -- "$1"',
        'fish': '__fish_complete_directories "$argv[1]"',
        'zsh': '_path_files -/',
        'pwsh': 'Get-ChildItem -Directory | ForEach-Object { $_.Name }',
    },
}

EPS = ('eps',)
EMPTY = ('empty',)


def item(k):
    return ('item', k)


def cat(a, b):
    if a == EMPTY or b == EMPTY:
        return EMPTY
    if a == EPS:
        return b
    if b == EPS:
        return a
    if a[0] == 'cat':
        return cat(a[1], cat(a[2], b))
    return ('cat', a, b)


def alt(*xs):
    s = set()
    for x in xs:
        if x == EMPTY:
            continue
        if x[0] == 'alt':
            s.update(x[1])
        else:
            s.add(x)
    if not s:
        return EMPTY
    if len(s) == 1:
        return next(iter(s))
    return ('alt', tuple(sorted(s, key=repr)))


def star(a):
    if a in (EPS, EMPTY):
        return EPS
    if a[0] == 'star':
        return a
    return ('star', a)


def nullable(r):
    k = r[0]
    if k == 'eps' or k == 'star':
        return True
    if k == 'empty' or k == 'item':
        return False
    if k == 'cat':
        return nullable(r[1]) and nullable(r[2])
    return any(nullable(x) for x in r[1])


def first(r, out=None):
    if out is None:
        out = set()
    k = r[0]
    if k == 'item':
        out.add(r[1])
    elif k == 'cat':
        first(r[1], out)
        if nullable(r[1]):
            first(r[2], out)
    elif k == 'alt':
        for x in r[1]:
            first(x, out)
    elif k == 'star':
        first(r[1], out)
    return out


def deriv(r, a):
    k = r[0]
    if k in ('eps', 'empty'):
        return EMPTY
    if k == 'item':
        return EPS if r[1] == a else EMPTY
    if k == 'cat':
        d = cat(deriv(r[1], a), r[2])
        if nullable(r[1]):
            return alt(d, deriv(r[2], a))
        return d
    if k == 'alt':
        return alt(*[deriv(x, a) for x in r[1]])
    return cat(deriv(r[1], a), r)


class Auto:
    """Partial DFA over hashable keys. states 0..n-1, trans[s] = {key: t}."""

    def __init__(self, start, trans, accepting):
        self.start = start
        self.trans = trans
        self.accepting = set(accepting)

    @property
    def n(self):
        return len(self.trans)

    def keys(self):
        ks = set()
        for row in self.trans:
            ks.update(row)
        return ks


def same_item_up_to_level(a, b):
    return with_level(a, None) == with_level(b, None)


def dfa_of(r):
    index = {r: 0}
    order = [r]
    trans = []
    i = 0
    while i < len(order):
        cur = order[i]
        row = {}
        fs = sorted(first(cur), key=repr)
        for a in fs:
            # `||` is transparent to matching (README; C09): the same item expected in several `||`
            # branches is one expectation whose continuation is the union of all of them.
            d = alt(*[deriv(cur, a2) for a2 in fs if same_item_up_to_level(a, a2)])
            if d == EMPTY:
                continue
            if d not in index:
                index[d] = len(order)
                order.append(d)
            row[a] = index[d]
        trans.append(row)
        i += 1
    acc = [i for i, e in enumerate(order) if nullable(e)]
    return Auto(0, trans, acc)


# ---------------------------------------------------------------------------------------------
# level ranks: only the *order* of the `||` levels among the items expected at one point is
# observable ("taken from the first || level that has any"), so keys are compared with the level
# replaced by its rank among the levels present at that state.

def level_of(k):
    if k[0] == 'lit':
        return k[3]
    if k[0] == 'cmd':
        return k[3]
    if k[0] == 'sub':
        return k[2]
    return None


def with_level(k, lv):
    if k[0] == 'lit':
        return (k[0], k[1], k[2], lv)
    if k[0] == 'cmd':
        return (k[0], k[1], k[2], lv)
    if k[0] == 'sub':
        return (k[0], k[1], lv)
    return k


def rank_levels(auto):
    """Return a copy of the automaton whose keys carry level ranks per state."""
    trans = []
    for row in auto.trans:
        lvls = sorted({level_of(k) for k in row if level_of(k) is not None})
        rk = {l: i for i, l in enumerate(lvls)}
        new = {}
        for k, t in row.items():
            l = level_of(k)
            nk = with_level(k, rk[l]) if l is not None else k
            if nk in new and new[nk] != t:
                # cannot happen for deterministic input: distinct levels keep distinct ranks
                raise AssertionError('rank collision')
            new[nk] = t
        trans.append(new)
    return Auto(auto.start, trans, auto.accepting)


def trim(auto):
    """Keep states reachable from start and co-reachable to accepting; renumber in BFS order."""
    n = auto.n
    reach = {auto.start}
    stack = [auto.start]
    while stack:
        s = stack.pop()
        for t in auto.trans[s].values():
            if t not in reach:
                reach.add(t)
                stack.append(t)
    rev = [[] for _ in range(n)]
    for s in range(n):
        for t in auto.trans[s].values():
            rev[t].append(s)
    co = set(x for x in auto.accepting)
    stack = list(co)
    while stack:
        s = stack.pop()
        for p in rev[s]:
            if p not in co:
                co.add(p)
                stack.append(p)
    keep = reach & co
    if auto.start not in keep:
        return Auto(0, [{}], [])
    order = [auto.start]
    idx = {auto.start: 0}
    i = 0
    while i < len(order):
        s = order[i]
        for k in sorted(auto.trans[s], key=repr):
            t = auto.trans[s][k]
            if t in keep and t not in idx:
                idx[t] = len(order)
                order.append(t)
        i += 1
    trans = []
    for s in order:
        trans.append({k: idx[t] for k, t in auto.trans[s].items() if t in keep})
    return Auto(0, trans, [idx[s] for s in auto.accepting if s in idx])


def moore_minimise(auto):
    """Moore partition refinement on a trim partial DFA (missing transition = to a sink)."""
    a = trim(auto)
    n = a.n
    block = [1 if s in a.accepting else 0 for s in range(n)]
    while True:
        sig = {}
        new = []
        for s in range(n):
            key = (block[s], tuple(sorted(((repr(k), block[t]) for k, t in a.trans[s].items()))))
            if key not in sig:
                sig[key] = len(sig)
            new.append(sig[key])
        if len(sig) == len(set(block)):
            block = new
            break
        block = new
    nb = len(set(block))
    rep = {}
    for s in range(n):
        rep.setdefault(block[s], s)
    trans = [None] * nb
    for b, s in rep.items():
        trans[b] = {k: block[t] for k, t in a.trans[s].items()}
    m = Auto(block[a.start], trans, {block[s] for s in a.accepting})
    return trim(m)


def canonical(auto):
    """Canonical hashable form of the minimal automaton (BFS numbering by sorted key repr)."""
    m = moore_minimise(auto)
    return (tuple(tuple(sorted(((k, t) for k, t in row.items()), key=repr)) for row in m.trans),
            tuple(sorted(m.accepting)))


# ---------------------------------------------------------------------------------------------
# from grammar tree to item expression

class RefError(Exception):
    pass


def distribute(n, d):
    """Give description d to expression n: in each |-alternative the leftmost literal that has no
    description of its own receives it, once per sequence. Returns (n', consumed)."""
    k = n[0]
    if k == 'lit':
        if d is not None and n[2] is None:
            return ('lit', n[1], d), True
        return n, False
    if k in ('ref', 'cmd'):
        return n, False
    if k in ('seq', 'sub'):
        out = []
        consumed = False
        for c in n[1]:
            if consumed or d is None:
                c2, _ = distribute(c, None)
            else:
                c2, consumed = distribute(c, d)
            out.append(c2)
        return (k, tuple(out)), consumed
    if k == 'alt':
        out = []
        allc = True
        for c in n[1]:
            c2, cons = distribute(c, d)
            out.append(c2)
            allc = allc and cons
        return (k, tuple(out)), (allc and d is not None)
    if k == 'fb':
        # documentation is silent on a description after a `||` expression; generated grammars do
        # not do that. Inner descriptions are still resolved.
        out = []
        for c in n[1]:
            c2, _ = distribute(c, None)
            out.append(c2)
        if d is not None:
            raise RefError('description applied to a || expression: outside the stated meaning')
        return (k, tuple(out)), False
    if k in ('opt', 'many'):
        c2, cons = distribute(n[1], d)
        return (k, c2), cons
    if k == 'descr':
        inner, _ = distribute(n[1], n[2])
        # an outer description (if any) is not given to anything inside a described expression
        return inner, False
    raise RefError('unknown node %r' % (k,))


class Resolver:
    def __init__(self, grammar, shell, deviations=()):
        self.shell = shell
        self.dev = set(deviations)
        self.plain = {}
        self.spec = {}
        for (name, sh, e) in grammar['defs']:
            if sh is None:
                if name in self.plain:
                    raise RefError('duplicate definition')
                self.plain[name] = distribute(e, None)[0]
            elif sh == shell:
                if e[0] != 'cmd':
                    raise RefError('specialisation must be a command')
                self.spec[name] = e[1]
        self.sub_classes = {}   # canonical form -> class id
        self.sub_autos = []     # class id -> minimal Auto (rank-normalised keys)
        self.sub_exprs = []     # class id -> (item expression, printed source) for reporting
        self.expanding = []
        vs = [distribute(v, None)[0] for v in grammar['variants']]
        parts = [self.to_re(v, 0, False) for v in vs]
        self.expr = alt(*parts) if len(parts) > 1 else parts[0]

    def compadd(self):
        return 'compadd' if self.shell == 'zsh' else 'stdout'

    def ref(self, name, level, in_word):
        if name in self.spec:
            return item(('cmd', self.spec[name].strip(), self.compadd(), level))
        if name in self.plain:
            if name in self.expanding:
                raise RefError('cyclic definitions')
            self.expanding.append(name)
            try:
                return self.to_re(self.plain[name], level, in_word)
            finally:
                self.expanding.pop()
        if name in BUILTIN:
            return item(('cmd', BUILTIN[name][self.shell], self.compadd(), level))
        return item(('any',))

    def to_re(self, n, level, in_word):
        k = n[0]
        if k == 'lit':
            return item(('lit', n[1], n[2], level))
        if k == 'cmd':
            return item(('cmd', n[1].strip(), 'stdout', level))
        if k == 'ref':
            return self.ref(n[1], level, in_word)
        if k == 'seq':
            if in_word:
                raise RefError('space-separated items inside a word')
            r = EPS
            for c in reversed(n[1]):
                r = cat(self.to_re(c, level, in_word), r)
            return r
        if k == 'alt':
            return alt(*[self.to_re(c, level, in_word) for c in n[1]])
        if k == 'fb':
            return alt(*[self.to_re(c, i, in_word) for i, c in enumerate(n[1])])
        if k == 'opt':
            return alt(self.to_re(n[1], level, in_word), EPS)
        if k == 'many':
            x = self.to_re(n[1], level, in_word)
            return cat(x, star(x))
        if k == 'sub':
            # levels inside a word are relative to the word (an item outside every within-word `||`
            # has level 0 there), so that the same within-word expression is the same item whichever
            # outer `||` branch it sits in
            r = EPS
            for c in reversed(n[1]):
                r = cat(self.to_re(c, level if in_word else 0, True), r)
            if in_word:
                return r
            return item(('sub', self.sub_class(r), level))
        raise RefError('unexpected node %r' % (k,))

    def sub_class(self, r):
        a = rank_levels(dfa_of(r))
        m = moore_minimise(a)
        c = canonical(m)
        if c not in self.sub_classes:
            self.sub_classes[c] = len(self.sub_autos)
            self.sub_autos.append(m)
            self.sub_exprs.append(r)
        return self.sub_classes[c]

    def automaton(self):
        return dfa_of(self.expr)


def reference(grammar, shell):
    """-> (Resolver, reference automaton with absolute levels)"""
    r = Resolver(grammar, shell)
    return r, r.automaton()


# ---------------------------------------------------------------------------------------------
# expected rejections the reference can predict (guards for the generators, not a C08 claim)

def conflicting_descriptions(auto):
    for row in auto.trans:
        seen = {}
        for k in row:
            if k[0] == 'lit':
                if k[1] in seen and seen[k[1]] != k[2]:
                    return True
                seen.setdefault(k[1], k[2])
    return False


def expected_rejection(resolver, auto):
    """None, or the reason complgen is documented to reject this grammar."""
    if conflicting_descriptions(auto):
        return 'ConflictingDescriptions'
    for m in resolver.sub_autos:
        if conflicting_descriptions(m):
            return 'ConflictingDescriptions'
        # a placeholder inside a word must be the last item of the word
        for s, row in enumerate(m.trans):
            if ('any',) in row:
                t = row[('any',)]
                if m.trans[t]:
                    return 'UnboundedMatchable'
    return None


def tolerated_rejections(resolver):
    """Rejections that are not predicted exactly but are not treated as generator failures either.
    complgen's within-word rules are stricter than their documentation in places: the placeholder rule
    also rejects `--o=[foo]<_>`, and the adjacent-literals rule fires for `--o=<N>` with `<N> = abc`
    only when the reference sits inside another definition. C08 is not claimed, so such grammars are
    counted (and the run is inconclusive if they become frequent), not analysed."""
    if resolver.sub_autos:
        return {'UnboundedMatchable', 'SubwordSpaces'}
    return set()
