"""C04: independent readers of the *data* embedded in the emitted scripts, one per shell, following
that shell's quoting and indexing rules. Output is a normalised table set per automaton (main and each
within-word one, with the shape-sharing indirection resolved the way the shell would resolve it).

A variable the reader expects but does not find, or a statement it cannot read, raises DecodeError
-> the check is inconclusive (fail closed), never a pass.
"""
import re

from . import quoting, bashsym
from .bashparse import P, Unsupported, parse
from .errors import Inconclusive


class DecodeError(Inconclusive):
    pass


# ---------------------------------------------------------------------------------------------
# splitting a script into functions

def split_functions(text, shell):
    """-> (dict name -> list of body lines, list of top-level lines)"""
    funcs = {}
    top = []
    lines = text.split('\n')
    i = 0
    if shell in ('bash', 'zsh'):
        start = re.compile(r'^([^\s(){}]+) \(\) \{\s*$')
        end = '}'
    elif shell == 'fish':
        start = re.compile(r'^function ([^\s(){}]+)\s*$')
        end = 'end'
    else:
        start = re.compile(r'^function ([^\s(){}]+) \{\s*$')
        end = '}'
    while i < len(lines):
        m = start.match(lines[i])
        if m:
            body = []
            i += 1
            while i < len(lines) and lines[i] != end:
                body.append(lines[i])
                i += 1
            funcs[m.group(1)] = body
            i += 1
            continue
        if shell == 'pwsh' and lines[i].startswith('Register-ArgumentCompleter'):
            body = []
            top.append(lines[i])
            i += 1
            while i < len(lines) and lines[i] != '}':
                body.append(lines[i])
                i += 1
            funcs['<completer>'] = body
            i += 1
            continue
        top.append(lines[i])
        i += 1
    return funcs, top


# ---------------------------------------------------------------------------------------------
# bash / zsh: interpret the assignment statements with the bash interpreter (concrete mode)

SH_DATA = re.compile(r'^    (?:(?:local|declare)(?: -[aA])? )?((?:subword_)?[a-z_]+(?:_level_\d+)?)(\[\d+\])?(\+?=)')
SH_NAMES = re.compile(r'^(subword_)?(literals|descriptions|descr_id_from_literal_id|literal_transitions|command_transitions|'
                      r'compadd_transitions|star_transitions|subword_transitions|literal_transitions_level_\d+|commands_level_\d+|'
                      r'compadd_commands_level_\d+|subword_transitions_level_\d+|max_fallback_level|state|subword_state)$')


def sh_vars(body):
    it = bashsym.Interp()
    for line in body:
        m = SH_DATA.match(line)
        if not m or not SH_NAMES.match(m.group(1)):
            continue
        if re.search(r'(?<!\\)\$[A-Za-z_({]', line):
            continue            # a template assignment such as `local prefix="${words[$cword]}"`, not data
        try:
            it.run(parse(line.strip()))
        except Unsupported as e:
            if 'backquote' in str(e):
                # an unescaped backquote in a data statement: bash and zsh run it as a command substitution, also inside double quotes
                raise DecodeError('string constant in %r is not inert (backquote command substitution)' % line.strip())
            raise DecodeError('cannot read data statement %r: %s' % (line.strip(), e))
    out = {}
    for name, v in it.globals.items():
        if v.kind == 'scalar':
            out[name] = v.val
        elif v.kind == 'indexed':
            if name.endswith('literals'):
                out[name] = [v.val[k] for k in sorted(v.val)]
            else:
                out[name] = {str(k): v.val[k] for k in sorted(v.val)}
        elif v.kind == 'assoc':
            out[name] = dict(v.val)
    return out


def compound(s):
    """"([1]=2 [3]=4)" -> {'1': '2', '3': '4'}"""
    p = P('x=' + s)
    a = p.try_assignment(True)
    if a is None or a[3][0] != 'array':
        raise DecodeError('not a compound value: %r' % s)
    it = bashsym.Interp()
    v = it.build_array(a[3], 'assoc')
    return dict(v.val)


def ints(s):
    return [int(x) for x in s.split()]


def tables_sh(v, prefix, shell):
    base = 0 if shell == 'bash' else 1
    g = lambda n, d=None: v.get(prefix + n, d)
    t = new_tables()
    lits = g('literals')
    if lits is not None:
        t['literals'] = {i + base: x for i, x in enumerate(lits)}
    if shell == 'zsh':
        descs = g('descriptions', {}) or {}
        for lid, did in (g('descr_id_from_literal_id', {}) or {}).items():
            if did not in descs:
                raise DecodeError('description id %r has no text' % did)
            t['descr'][int(lid)] = descs[did]
    for name, key in (('literal_transitions', 'lit'), ('command_transitions', 'cmd'), ('compadd_transitions', 'compadd')):
        d = g(name)
        if d is None:
            continue
        for s, val in d.items():
            t[key][int(s)] = {int(k): int(x) for k, x in compound(val).items()}
    d = v.get('subword_transitions') if prefix == '' else None
    if d:
        for s, val in d.items():
            t['sub'][int(s)] = {int(k): int(x) for k, x in compound(val).items()}
    d = g('star_transitions')
    if d:
        t['star'] = {int(k): int(x) for k, x in d.items()}
    for name, key in (('literal_transitions_level_', 'lit_lv'), ('commands_level_', 'cmd_lv'),
                      ('compadd_commands_level_', 'compadd_lv')):
        collect_levels(v, prefix + name, t[key], lambda val: ints(val))
    if prefix == '':
        collect_levels(v, 'subword_transitions_level_', t['sub_lv'], lambda val: ints(val))
    mf = g('max_fallback_level')
    if mf is not None:
        t['max_level'] = int(mf)
    return t


def collect_levels(v, stem, out, conv):
    lv = 0
    while (stem + str(lv)) in v:
        d = v[stem + str(lv)]
        out.append({int(s): conv(val) for s, val in d.items()})
        lv += 1


def new_tables():
    return {'literals': None, 'descr': {}, 'lit': {}, 'cmd': {}, 'compadd': {}, 'star': {}, 'sub': {},
            'lit_lv': [], 'cmd_lv': [], 'compadd_lv': [], 'sub_lv': [], 'start': None, 'max_level': None}


# ---------------------------------------------------------------------------------------------
# fish

def fish_tokens(s):
    """split the argument part of a `set` line into values (double-quoted strings decoded by the
    fish reader model; bare words as they are)"""
    out = []
    i = 0
    n = len(s)
    while i < n:
        if s[i] in ' \t':
            i += 1
            continue
        if s[i] == '"':
            j = i + 1
            while j < n:
                if s[j] == '\\':
                    j += 2
                    continue
                if s[j] == '"':
                    break
                j += 1
            if j >= n:
                raise DecodeError('unterminated fish string in %r' % s)
            ok, ex, dec = quoting.decode('fish', s[i:j + 1].encode())
            if not ok or ex:
                raise DecodeError('fish string constant %r is not inert' % s[i:j + 1])
            out.append(dec.decode())
            i = j + 1
        else:
            j = i
            while j < n and s[j] not in ' \t':
                j += 1
            out.append(s[i:j])
            i = j
    return out


FISH_SET = re.compile(r'^\s+set (?:--global )?([a-z_0-9]+)(?:\[(\d+)\])?(?: (.*))?$')


def fish_vars(body):
    v = {}
    for line in body:
        m = FISH_SET.match(line)
        if not m:
            continue
        name, idx, rest = m.group(1), m.group(2), m.group(3) or ''
        if '$' in re.sub(r'"(?:\\.|[^"\\])*"', '', rest) or '(' in re.sub(r'"(?:\\.|[^"\\])*"', '', rest):
            continue        # template code, not data
        vals = fish_tokens(rest)
        if idx is not None:
            if len(vals) != 1:
                continue
            v.setdefault(name, {})
            if not isinstance(v[name], dict):
                v[name] = {}
            v[name][int(idx)] = vals[0]
        else:
            if name in v and not vals:
                continue    # `set name` (reset) after data
            v[name] = vals
    return v


def tables_fish(v, prefix):
    t = new_tables()
    g = lambda n, d=None: v.get(prefix + n, d)
    lits = g('literals')
    if lits is not None:
        t['literals'] = {i + 1: x for i, x in enumerate(lits)}
    descrs = g('descrs', {})
    dl, di = g('descr_literal_ids', []), g('descr_ids', [])
    if isinstance(descrs, dict) and dl:
        if len(dl) != len(di):
            raise DecodeError('descr_literal_ids / descr_ids differ in length')
        for lid, did in zip(dl, di):
            if int(did) not in descrs:
                raise DecodeError('description id %s has no text' % did)
            t['descr'][int(lid)] = descrs[int(did)]
    ins, tos = g('literal_transitions_inputs'), g('literal_transitions_tos')
    if ins:
        if tos is None or len(ins) != len(tos):
            raise DecodeError('literal_transitions_inputs / _tos differ in length')
        for pos, (a, b) in enumerate(zip(ins, tos)):
            ia, ib = ints(a), ints(b)
            if len(ia) != len(ib):
                raise DecodeError('literal transition row lengths differ')
            if ia:
                t['lit'][pos + 1] = dict(zip(ia, ib))
    ct = g('command_transitions')
    if isinstance(ct, dict):
        for s, val in ct.items():
            row = {}
            for pair in val.split():
                c, to = pair.split(',')
                row[int(c)] = int(to)
            t['cmd'][s] = row
    sf, st = g('star_transitions_from'), g('star_transitions_to')
    if sf:
        if st is None or len(sf) != len(st):
            raise DecodeError('star_transitions_from / _to differ in length')
        t['star'] = {int(a): int(b) for a, b in zip(sf, st)}
    if prefix == '':
        ids, tos2 = v.get('subword_transitions_ids'), v.get('subword_transitions_tos')
        if isinstance(ids, dict):
            for s, val in ids.items():
                a, b = ints(val), ints(tos2[s])
                if len(a) != len(b):
                    raise DecodeError('subword transition row lengths differ')
                t['sub'][s] = dict(zip(a, b))
    def levels(fstem, istem, out):
        lv = 0
        while (fstem + str(lv)) in v:
            froms, vals = v[fstem + str(lv)], v.get(istem + str(lv), [])
            if len(froms) != len(vals):
                raise DecodeError('%s%d / %s%d differ in length' % (fstem, lv, istem, lv))
            out.append({int(f): ints(x) for f, x in zip(froms, vals)})
            lv += 1
    levels(prefix + 'literal_froms_level_', prefix + 'literal_inputs_level_', t['lit_lv'])
    levels(prefix + 'command_froms_level_', prefix + 'commands_level_', t['cmd_lv'])
    if prefix == '':
        levels('subword_froms_level_', 'subwords_level_', t['sub_lv'])
    return t


# ---------------------------------------------------------------------------------------------
# pwsh

class PS:
    def __init__(self, s):
        self.s = s
        self.i = 0

    def ws(self):
        while self.i < len(self.s) and self.s[self.i] in ' \t\r\n':
            self.i += 1

    def value(self):
        self.ws()
        s = self.s
        if s.startswith('@(', self.i):
            self.i += 2
            out = []
            while True:
                self.ws()
                if s[self.i] == ')':
                    self.i += 1
                    return out
                out.append(self.value())
                self.ws()
                if s[self.i] == ',':
                    self.i += 1
        if s.startswith('@{', self.i):
            self.i += 2
            out = {}
            while True:
                self.ws()
                while self.i < len(s) and s[self.i] == ';':
                    self.i += 1
                    self.ws()
                if s[self.i] == '}':
                    self.i += 1
                    return out
                k = self.value()
                self.ws()
                if s[self.i] != '=':
                    raise DecodeError('pwsh hashtable: expected = at %r' % s[self.i:self.i + 20])
                self.i += 1
                out[k] = self.value()
        if s[self.i] == '"':
            j = self.i + 1
            while j < len(s):
                if s[j] == '`':
                    j += 2
                    continue
                if s[j] == '"':
                    if s[j + 1:j + 2] == '"':
                        j += 2
                        continue
                    break
                j += 1
            ok, ex, dec = quoting.decode('pwsh', s[self.i:j + 1].encode())
            if not ok or ex:
                raise DecodeError('pwsh string constant %r is not inert' % s[self.i:j + 1])
            self.i = j + 1
            return dec.decode()
        m = re.compile(r'-?\d+').match(s, self.i)
        if m:
            self.i = m.end()
            return int(m.group(0))
        raise DecodeError('pwsh value at %r' % s[self.i:self.i + 30])


PS_ASSIGN = re.compile(r'^\s+\$([a-z_0-9]+)(?:\[(\d+)\])? = (?=@\(|@\{|"|-?\d)')


PS_NAMES = re.compile(r'^(literals|descriptions|literal_transitions|command_transitions|star_transitions|subword_transitions|'
                      r'literal_transitions_level_\d+|commands_level_\d+|subword_transitions_level_\d+|max_fallback_level|state|subword_state)$')


def pwsh_vars(body):
    v = {}
    text = '\n'.join(body)
    lines = body
    i = 0
    # statement starts are recognised per line; a hashtable value may span lines
    pos = 0
    offsets = []
    for ln in lines:
        offsets.append(pos)
        pos += len(ln) + 1
    k = 0
    while k < len(lines):
        m = PS_ASSIGN.match(lines[k])
        if not m or not PS_NAMES.match(m.group(1)):
            k += 1
            continue
        ps = PS(text)
        ps.i = offsets[k] + m.end()
        val = ps.value()
        name, idx = m.group(1), m.group(2)
        if idx is not None:
            v.setdefault(name, {})
            v[name][int(idx)] = val
        else:
            if name in ('max_fallback_level', 'state', 'subword_state') and name in v:
                pass
            else:
                v[name] = val
        while k < len(lines) and offsets[k] < ps.i:
            k += 1
    return v


def tables_pwsh(v):
    t = new_tables()
    if 'literals' in v:
        t['literals'] = {i: x for i, x in enumerate(v['literals'])}
    for lid, d in (v.get('descriptions') or {}).items():
        t['descr'][int(lid)] = d
    for name, key in (('literal_transitions', 'lit'), ('command_transitions', 'cmd'), ('subword_transitions', 'sub')):
        for s, row in (v.get(name) or {}).items():
            t[key][int(s)] = {int(a): int(b) for a, b in row.items()}
    t['star'] = {int(a): int(b) for a, b in (v.get('star_transitions') or {}).items()}
    for stem, key in (('literal_transitions_level_', 'lit_lv'), ('commands_level_', 'cmd_lv'),
                      ('subword_transitions_level_', 'sub_lv')):
        lv = 0
        while (stem + str(lv)) in v:
            t[key].append({int(s): [int(x) for x in ids] for s, ids in v[stem + str(lv)].items()})
            lv += 1
    return t


# ---------------------------------------------------------------------------------------------
# whole script

def merge(base, extra):
    """shape function tables + per-instance literals"""
    out = dict(base)
    for k in ('literals',):
        if extra.get(k) is not None:
            out[k] = extra[k]
    if extra.get('descr'):
        out['descr'] = extra['descr']
    return out


def body_text(lines):
    return '\n'.join(l.strip() for l in lines).strip()


def decode_script(text, shell, command):
    funcs, top = split_functions(text, shell)
    res = {'commands': {}, 'subwords': {}, 'main': None, 'registration': False, 'sub_start': None}
    fn = '_%s' % command
    if fn not in funcs:
        # the completion function is the one the script registers, whatever it is called; whether it is registered for the
        # grammar's command name is decided below
        for l in top:
            m = None
            if shell == 'bash':
                m = re.fullmatch(r'complete (?:-o \S+ )*-F (\S+) (\S+)', l.strip())
            elif shell == 'zsh':
                m = re.fullmatch(r'compdef (\S+) (\S+)', l.strip())
            elif shell == 'fish':
                m = re.fullmatch(r'complete --command (\S+) .*--arguments "\((\S+)\)"', l.strip())
                if m:
                    m = type('M', (), {'group': lambda self, i, _m=m: _m.group(2 if i == 1 else 1)})()
            if m and m.group(1) in funcs:
                fn = m.group(1)
                break
    for name, body in funcs.items():
        m = re.fullmatch(re.escape(fn) + r'_cmd_(\d+)', name)
        if m:
            res['commands'][int(m.group(1))] = body_text(body)
    if shell in ('bash', 'zsh'):
        prefix = '' if shell == 'bash' else 'subword_'
        shapes = {}
        for name, body in funcs.items():
            m = re.fullmatch(re.escape(fn) + r'_subword_shape_(\d+)', name)
            if m:
                shapes[int(m.group(1))] = tables_sh(sh_vars(body), prefix, shell)
        for name, body in funcs.items():
            m = re.fullmatch(re.escape(fn) + r'_subword_(\d+)', name)
            if not m:
                continue
            t = tables_sh(sh_vars(body), prefix, shell)
            call = [l.strip() for l in body if l.strip().startswith(fn + '_subword')]
            if not call:
                raise DecodeError('within-word function %s calls nothing' % name)
            cm = re.match(re.escape(fn) + r'_subword_shape_(\d+) ', call[-1])
            if cm:
                sid = int(cm.group(1))
                if sid not in shapes:
                    raise DecodeError('%s refers to a missing shape %d' % (name, sid))
                t = merge(shapes[sid], t)
            res['subwords'][int(m.group(1))] = t
        if fn not in funcs:
            raise DecodeError('completion function %s not found' % fn)
        v = sh_vars(funcs[fn])
        res['main'] = tables_sh(v, '', shell)
        if 'state' not in v:
            raise DecodeError('start state not found')
        res['main']['start'] = int(v['state'])
        sw = funcs.get(fn + '_subword')
        if sw is not None:
            sv = sh_vars(sw)
            if 'subword_state' not in sv:
                raise DecodeError('within-word start state not found')
            res['sub_start'] = int(sv['subword_state'])
        if shell == 'bash':
            res['registration'] = any(re.fullmatch(r'complete (?:-o \S+ )*-F %s %s' % (re.escape(fn), re.escape(command)), l.strip()) for l in top)
        else:
            res['registration'] = (top[:1] == ['#compdef %s' % command] and
                                   any(l.strip() == 'compdef %s %s' % (fn, command) for l in top))
    elif shell == 'fish':
        shapes = {}
        for name, body in funcs.items():
            m = re.fullmatch(re.escape(fn) + r'_subword_shape_(\d+)', name)
            if m:
                shapes[int(m.group(1))] = tables_fish(fish_vars(body), 'subword_')
        for name, body in funcs.items():
            m = re.fullmatch(re.escape(fn) + r'_subword_(\d+)', name)
            if not m:
                continue
            t = tables_fish(fish_vars(body), 'subword_')
            call = [l.strip() for l in body if l.strip().startswith(fn + '_subword')]
            if not call:
                raise DecodeError('within-word function %s calls nothing' % name)
            cm = re.match(re.escape(fn) + r'_subword_shape_(\d+) ', call[-1])
            if cm:
                t = merge(shapes[int(cm.group(1))], t)
            res['subwords'][int(m.group(1))] = t
        if fn not in funcs:
            raise DecodeError('completion function %s not found' % fn)
        v = fish_vars(funcs[fn])
        res['main'] = tables_fish(v, '')
        if 'state' not in v or len(v['state']) != 1:
            raise DecodeError('start state not found')
        res['main']['start'] = int(v['state'][0])
        sw = funcs.get(fn + '_subword')
        if sw is not None:
            sv = fish_vars(sw)
            res['sub_start'] = int(sv['subword_state'][0])
        res['registration'] = any(re.fullmatch(r'complete --command %s .*--arguments "\(%s\)"' % (re.escape(command), re.escape(fn)), l.strip()) for l in top)
    else:
        shapes = {}
        for name, body in funcs.items():
            m = re.fullmatch(re.escape(fn) + r'_subword_shape_(\d+)', name)
            if m:
                shapes[int(m.group(1))] = tables_pwsh(pwsh_vars(body))
        for name, body in funcs.items():
            m = re.fullmatch(re.escape(fn) + r'_subword_(\d+)', name)
            if not m:
                continue
            t = tables_pwsh(pwsh_vars(body))
            call = [l.strip() for l in body if l.strip().startswith(fn + '_subword')]
            if not call:
                raise DecodeError('within-word function %s calls nothing' % name)
            cm = re.match(re.escape(fn) + r'_subword_shape_(\d+) ', call[-1])
            if cm:
                t = merge(shapes[int(cm.group(1))], t)
            res['subwords'][int(m.group(1))] = t
        if '<completer>' not in funcs:
            raise DecodeError('Register-ArgumentCompleter block not found')
        v = pwsh_vars(funcs['<completer>'])
        res['main'] = tables_pwsh(v)
        if 'state' not in v:
            raise DecodeError('start state not found')
        res['main']['start'] = int(v['state'])
        sw = funcs.get(fn + '_subword')
        if sw is not None:
            sv = pwsh_vars(sw)
            res['sub_start'] = int(sv['subword_state'])
        res['registration'] = any(re.match(r"Register-ArgumentCompleter -Native -CommandName '%s' -ScriptBlock \{" % re.escape(command), l) for l in top)
    return res
