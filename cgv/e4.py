"""C04: the data embedded in each emitted script, read back by the per-shell decoders, describes the
same automaton as the compiled one and as the grammar (solver-decided equivalence, query 1)."""
from . import gram, ref, autosmt, decoders, common
from .autosmt import Stats
from .errors import Inconclusive
from .ref import Auto, trim, rank_levels, canonical
from . import e3


def norm_cmd(text):
    return '\n'.join(l.strip() for l in text.strip().split('\n'))


def all_accepting(a):
    return Auto(a.start, a.trans, range(a.n))


def auto_from_tables(t, start, shell, commands, subkey, violations, where):
    """tables -> NFA over keys (all states accepting: the scripts carry no acceptance information)"""
    states = {start}
    for key in ('lit', 'cmd', 'compadd', 'sub'):
        for s, row in t[key].items():
            states.add(s)
            states.update(row.values())
    for s, to in t['star'].items():
        states.add(s)
        states.add(to)
    order = sorted(states)
    idx = {s: i for i, s in enumerate(order)}
    trans = [dict() for _ in order]

    def levels_of(tables_lv, s, item):
        return [lv for lv, d in enumerate(tables_lv) if item in d.get(s, [])]

    def add(s, key, to):
        trans[idx[s]].setdefault(key, set()).add(idx[to])

    for s, row in t['lit'].items():
        for lid, to in row.items():
            if t['literals'] is None or lid not in t['literals']:
                violations.append(('literal-id-out-of-range', '%s: state %d refers to literal id %d which the literal list does not have' % (where, s, lid)))
                continue
            text = t['literals'][lid]
            d = t['descr'].get(lid) or None
            if shell == 'bash':
                d = None
            lvs = levels_of(t['lit_lv'], s, lid)
            if not lvs:
                violations.append(('transition-never-offered', '%s: literal %r has a transition from state %d but is offered at no level there' % (where, text, s)))
            for lv in lvs:
                add(s, ('lit', text, d, lv), to)
    for lv, dct in enumerate(t['lit_lv']):
        for s, ids in dct.items():
            for lid in ids:
                if lid not in t['lit'].get(s, {}):
                    violations.append(('offered-without-transition', '%s: literal id %d is offered at state %d (level %d) but has no transition there' % (where, lid, s, lv)))
    for kind, tk, lk in (('stdout', 'cmd', 'cmd_lv'), ('compadd', 'compadd', 'compadd_lv')):
        for s, row in t[tk].items():
            for cid, to in row.items():
                if cid not in commands:
                    violations.append(('command-id-without-function', '%s: state %d refers to command id %d which has no function' % (where, s, cid)))
                    continue
                lvs = levels_of(t[lk], s, cid)
                if not lvs:
                    violations.append(('transition-never-offered', '%s: command %d has a transition from state %d but is offered at no level there' % (where, cid, s)))
                body = norm_cmd(commands[cid])
                for lv in lvs:
                    add(s, ('cmd', body, kind, lv), to)
        for lv, dct in enumerate(t[lk]):
            for s, ids in dct.items():
                for cid in ids:
                    if cid not in t[tk].get(s, {}):
                        violations.append(('offered-without-transition', '%s: command id %d is offered at state %d (level %d) but has no transition there' % (where, cid, s, lv)))
    for s, to in t['star'].items():
        add(s, ('any',), to)
    for s, row in t['sub'].items():
        for sid, to in row.items():
            lvs = levels_of(t['sub_lv'], s, sid)
            if not lvs:
                violations.append(('transition-never-offered', '%s: within-word automaton %d has a transition from state %d but is offered at no level there' % (where, sid, s)))
            for lv in lvs:
                add(s, ('sub', subkey(sid), lv), to)
    for lv, dct in enumerate(t['sub_lv']):
        for s, ids in dct.items():
            for sid in ids:
                if sid not in t['sub'].get(s, {}):
                    violations.append(('offered-without-transition', '%s: within-word automaton %d is offered at state %d (level %d) but has no transition there' % (where, sid, s, lv)))
    a, _ = autosmt.determinise(idx[start], trans, set(range(len(order))))
    return a


def analyse(job):
    g, shells = job
    text = gram.print_grammar(g)
    res = {'text': text, 'violations': [], 'inconclusive': [], 'stats': None, 'rows': []}
    stats = Stats()
    for shell in shells:
        row = {'shell': shell, 'status': None, 'nontrivial': False}
        res['rows'].append(row)
        try:
            try:
                resolver, R0 = ref.reference(g, shell)
            except ref.RefError as e:
                row['status'] = 'outside-reference:%s' % e
                continue
            if ref.expected_rejection(resolver, R0) is not None:
                row['status'] = 'rejected-as-documented'
                continue
            rc, script, err = common.emit_script(shell, text)
            if rc != 0:
                first = err.strip().split('\n')[0] if err.strip() else ''
                if any(x in first for x in ('ubword', 'mbigu')) and ref.tolerated_rejections(resolver):
                    row['status'] = 'rejected-by-stricter-within-word-rule'
                else:
                    row['status'] = 'unexpected-rejection'
                    res['inconclusive'].append('complgen rejected a clean-by-construction grammar (%s) for %s: %r' % (first, shell, text))
                continue
            d = e3.cgv().dump(shell, text)
            if not d.get('ok') or d.get('ambiguity'):
                row['status'] = 'unexpected-rejection'
                res['inconclusive'].append('library pipeline rejects what the binary accepted: %r' % text)
                continue
            row['status'] = 'ok'
            dec = decoders.decode_script(script, shell, g['command'])
            viol = []
            # prefix classes of the reference's within-word expressions
            pclasses = []       # representative automata (all accepting, ranked)
            pc_of_class = {}
            for cid, m in enumerate(resolver.sub_autos):
                pa = rank_levels(all_accepting(strip_descr(m, shell)))
                c = canonical(pa)
                for j, (cj, _) in enumerate(pclasses):
                    if cj == c:
                        pc_of_class[cid] = j
                        break
                else:
                    pc_of_class[cid] = len(pclasses)
                    pclasses.append((c, ref.moore_minimise(pa)))

            def classify(a):
                for j, (_, rep) in enumerate(pclasses):
                    if a.keys() == rep.keys() and autosmt.bisim(a, rep, stats, kind='bisim-sub')[0]:
                        return j
                return None

            subkeys = {}
            for sid, t in dec['subwords'].items():
                if dec['sub_start'] is None:
                    raise decoders.DecodeError('within-word tables without a within-word start state')
                a = auto_from_tables(t, dec['sub_start'], shell, dec['commands'], lambda x: ('nested', x), viol, 'within-word automaton %d' % sid)
                cls = classify(rank_levels(trim(a)))
                subkeys[sid] = cls if cls is not None else ('unmatched', sid)
                if cls is None:
                    viol.append(('subword-tables-differ', 'the tables of within-word automaton %d (%s) describe no within-word expression of the grammar'
                                 % (sid, shell)))
            A = auto_from_tables(dec['main'], dec['main']['start'], shell, dec['commands'], lambda sid: subkeys.get(sid, ('missing', sid)), viol, 'main automaton')
            A = rank_levels(trim(A))
            row['decoded_states'] = A.n
            row['nontrivial'] = A.n >= 3 or bool(dec['subwords'])

            # reference, prefix-closed, keys mapped to prefix classes
            def refkey(k):
                k = strip_descr_key(k, shell)
                if k[0] == 'sub':
                    return ('sub', pc_of_class[k[1]], k[2])
                if k[0] == 'cmd':
                    return ('cmd', norm_cmd(k[1]) if not (shell == 'bash' and k[1].strip() == '') else ':', k[2], k[3])
                return k
            Rn = relabel(R0, refkey)
            ok, _ = autosmt.bisim(A, Rn, stats, kind='bisim-script-vs-grammar')
            row['script_vs_grammar'] = ok
            if not ok:
                seq = autosmt.distinguish(A, Rn, stats)
                viol.append(('tables-differ-from-grammar',
                             'the tables of the %s script do not describe the grammar: item sequence %r is %s by the tables and %s by the grammar'
                             % (shell, [e3.describe_key(k) for k in (seq or [])],
                                'followed' if seq is not None and autosmt.walk(A, seq)[0] else 'not followed',
                                'allowed' if seq is not None and autosmt.walk(Rn, seq)[0] else 'not allowed')))
            # compiled automaton (minimised, as dumped), prefix-closed, same key mapping
            mn = d['min']
            subclass = {}
            for j, sd in enumerate(mn['subdfas']):
                a0, _, _ = autosmt.auto_of_dump(sd, lambda inp: strip_descr_key(e3.base_key(inp), shell))
                cls = classify(rank_levels(all_accepting(trim(a0))))
                subclass[j] = cls if cls is not None else ('unmatched-dfa', j)

            def dkey(inp):
                if inp['kind'] == 'sub':
                    return ('sub', subclass[inp['dfa']], inp['level'])
                k = strip_descr_key(e3.base_key(inp), shell)
                if k[0] == 'cmd':
                    return ('cmd', norm_cmd(k[1]) if not (shell == 'bash' and k[1].strip() == '') else ':', k[2], k[3])
                return k
            M0, _, _ = autosmt.auto_of_dump(mn, dkey)
            Mn = rank_levels(all_accepting(trim(M0)))
            ok2, _ = autosmt.bisim(A, Mn, stats, kind='bisim-script-vs-compiled')
            row['script_vs_compiled'] = ok2
            if not ok2 and ok:
                viol.append(('tables-differ-from-compiled-automaton', 'the tables of the %s script differ from the minimised automaton' % shell))
            if not dec['registration']:
                viol.append(('not-registered', 'the %s script does not register its completion function for %r' % (shell, g['command'])))
            for (key, what) in viol:
                res['violations'].append(('C04', '%s:%s' % (key, shell) if key in ('not-registered',) else key, what,
                                          {'grammar': text, 'shell': shell, 'script': script}))
        except Inconclusive as e:
            row['status'] = 'inconclusive'
            res['inconclusive'].append('%s [%s] %r' % (e, shell, text))
    res['stats'] = (stats.queries, stats.solver_s)
    return res


def strip_descr_key(k, shell):
    if shell == 'bash' and k[0] == 'lit':
        return ('lit', k[1], None, k[3])
    return k


def strip_descr(m, shell):
    if shell != 'bash':
        return m
    trans = []
    for row in m.trans:
        new = {}
        for k, t in row.items():
            new[strip_descr_key(k, shell)] = t
        trans.append(new)
    return Auto(m.start, trans, m.accepting)


def relabel(R0, keyfn):
    """reference automaton with mapped keys, prefix-closed, determinised, ranked"""
    trans = []
    for row in R0.trans:
        new = {}
        for k, t in row.items():
            new.setdefault(keyfn(k), set()).add(t)
        trans.append(new)
    a, _ = autosmt.determinise(R0.start, trans, set(range(R0.n)))
    return rank_levels(trim(a))
