"""Grammar trees, the .usage printer and the program families (the enumerated dimension).

A grammar is built as a *tree* here and printed as text; complgen's parser is never consulted to
learn what the text means -- the reference semantics (ref.py) works on the tree.

Node kinds (tuples, hashable):
  ('lit', text, descr|None)
  ('seq', (children...))        space separated
  ('alt', (children...))        |
  ('fb',  (children...))        ||
  ('opt', child)                [child]
  ('many', child)               child...
  ('sub', (children...))        within-word juxtaposition
  ('ref', name)                 <NAME>
  ('cmd', text)                 {{{ text }}}
  ('descr', child, d)           (child) "d"   -- description written after a non-literal
Grammar: {'command': str, 'variants': [expr], 'defs': [(name, shell|None, expr)]}
"""
import itertools
import random

REGULAR = set("abcdefghijklmnopqrstuvwxyzABCDEFGHIJKLMNOPQRSTUVWXYZ0123456789!#$%&'*+,-/:=?@^_`~")
ESCAPABLE = set('()[]<>|;"{}\\.')


def Lit(t, d=None):
    return ('lit', t, d)


def Seq(*c):
    return ('seq', tuple(c))


def Alt(*c):
    return ('alt', tuple(c))


def Fb(*c):
    return ('fb', tuple(c))


def Opt(c):
    return ('opt', c)


def Many(c):
    return ('many', c)


def Sub(*c):
    return ('sub', tuple(c))


def Ref(n):
    return ('ref', n)


def Cmd(t):
    return ('cmd', t)


def Descr(c, d):
    return ('descr', c, d)


# ---------------------------------------------------------------------------------------------
# printer

def print_literal(text):
    """Terminal text -> .usage spelling (documented lexer: regular chars, backslash escapes,
    fewer than three consecutive dots)."""
    out = []
    i = 0
    while i < len(text):
        c = text[i]
        if c == '.':
            # a run of dots: '.' and '..' may be written raw when the run is shorter than three and
            # not followed by something that makes it three; escape every dot to be safe
            out.append('\\.')
        elif c in REGULAR:
            out.append(c)
        elif c in ESCAPABLE:
            out.append('\\' + c)
        else:
            raise ValueError('character %r cannot occur in a terminal' % c)
        i += 1
    return ''.join(out)


def print_descr(d):
    return '"' + d.replace('\\', '\\\\').replace('"', '\\"') + '"'


def _lit_str(n):
    s = print_literal(n[1])
    if n[2] is not None:
        s += ' ' + print_descr(n[2])
    return s


def _starts_terminal(s):
    return bool(s) and (s[0] in REGULAR or s[0] == '\\' or s[0] == '.')


def _ends_terminal(s):
    """Printed text ends in terminal characters that would merge with a following terminal."""
    if not s:
        return False
    if s.endswith('...'):
        return False
    c = s[-1]
    if c in ')]>}"':
        # '"' closes a description; a terminal may follow directly
        return False
    return True


def p_unary(n):
    """Print n as one unary item (usable inside a word, before '...')."""
    k = n[0]
    if k == 'lit':
        return _lit_str(n)
    if k == 'ref':
        return '<' + n[1] + '>'
    if k == 'cmd':
        return '{{{ ' + n[1] + ' }}}'
    if k == 'opt':
        return '[' + p_expr(n[1]) + ']'
    if k == 'many':
        inner = n[1]
        if inner[0] in ('lit', 'ref', 'cmd', 'opt'):
            u = p_unary(inner)
        else:
            u = '(' + p_expr(inner) + ')'
        return u + '...'
    if k == 'descr':
        return '(' + p_descr(n) + ')'
    return '(' + p_expr(n) + ')'


def p_descr(n):
    inner = n[1]
    if inner[0] == 'opt':
        body = p_unary(inner)
    else:
        body = '(' + p_expr(inner) + ')'
    return body + ' ' + print_descr(n[2])


def p_sub(n):
    parts = []
    for ch in n[1]:
        if ch[0] == 'sub':
            s = '(' + p_sub(ch) + ')'
        else:
            s = p_unary(ch)
        if parts and _ends_terminal(parts[-1]) and _starts_terminal(s):
            s = '(' + s + ')'
        elif parts and parts[-1].endswith('.') and not parts[-1].endswith('\\.') and s.startswith('.'):
            s = '(' + s + ')'
        parts.append(s)
    return ''.join(parts)


def p_seq_item(n):
    k = n[0]
    if k in ('seq', 'alt', 'fb'):
        return '(' + p_expr(n) + ')'
    if k == 'sub':
        return p_sub(n)
    if k == 'descr':
        return p_descr(n)
    return p_unary(n)


def p_alt_item(n):
    k = n[0]
    if k in ('alt', 'fb'):
        return '(' + p_expr(n) + ')'
    if k == 'seq':
        return ' '.join(p_seq_item(c) for c in n[1])
    return p_seq_item(n)


def p_fb_item(n):
    k = n[0]
    if k == 'fb':
        return '(' + p_expr(n) + ')'
    if k == 'alt':
        return ' | '.join(p_alt_item(c) for c in n[1])
    return p_alt_item(n)


def p_expr(n):
    k = n[0]
    if k == 'fb':
        return ' || '.join(p_fb_item(c) for c in n[1])
    return p_fb_item(n)


def print_grammar(g):
    lines = []
    for v in g['variants']:
        lines.append('%s %s;' % (g['command'], p_expr(v)))
    for (name, shell, e) in g['defs']:
        lhs = '<%s@%s>' % (name, shell) if shell else '<%s>' % name
        lines.append('%s = %s;' % (lhs, p_expr(e)))
    return '\n'.join(lines) + '\n'


# ---------------------------------------------------------------------------------------------
# structural helpers

def walk(n):
    yield n
    k = n[0]
    if k in ('seq', 'alt', 'fb', 'sub'):
        for c in n[1]:
            yield from walk(c)
    elif k in ('opt', 'many', 'descr'):
        yield from walk(n[1])


def size(n):
    return sum(1 for _ in walk(n))


def unary_ok_in_word(n):
    return n[0] in ('lit', 'ref', 'cmd', 'opt', 'many', 'alt', 'fb', 'sub', 'descr')


def has_seq(n):
    return any(x[0] == 'seq' for x in walk(n))


def head_is_lit(n):
    """complgen rejects two adjacent literals inside a word ("spaces inside a word"), looking through
    parentheses and juxtaposition but not through | || [] ... or <NONTERMINAL>."""
    k = n[0]
    if k == 'lit':
        return True
    if k in ('seq', 'sub'):
        return head_is_lit(n[1][0])
    if k == 'descr':
        return head_is_lit(n[1])
    return False


def tail_is_lit(n):
    k = n[0]
    if k == 'lit':
        return True
    if k in ('seq', 'sub'):
        return tail_is_lit(n[1][-1])
    if k == 'descr':
        return tail_is_lit(n[1])
    return False


def word_ok(children):
    return not any(tail_is_lit(a) and head_is_lit(b) for a, b in zip(children, children[1:]))


# ---------------------------------------------------------------------------------------------
# families

def enumerate_trees(max_nodes, lits, with_sub=True, with_fb=True):
    """All expression trees with <= max_nodes nodes over the given literal leaves.
    Binary operators only (n-ary ones arise by nesting); 'sub' children are word-safe."""
    by_size = {1: [Lit(t) for t in lits]}
    for sz in range(2, max_nodes + 1):
        out = []
        for c in by_size[sz - 1]:
            out.append(Opt(c))
            if c[0] != 'many':
                out.append(Many(c))
        for ls in range(1, sz - 1):
            rs = sz - 1 - ls
            for a in by_size[ls]:
                for b in by_size[rs]:
                    out.append(Seq(a, b))
                    out.append(Alt(a, b))
                    if with_fb:
                        out.append(Fb(a, b))
                    if with_sub and not has_seq(a) and not has_seq(b):
                        # two adjacent plain literals inside a word are one literal; skip those
                        if word_ok((a, b)):
                            out.append(Sub(a, b))
        by_size[sz] = out
    res = []
    for sz in range(1, max_nodes + 1):
        res.extend(by_size[sz])
    return res


def mk(command, expr, defs=()):
    return {'command': command, 'variants': [expr], 'defs': list(defs)}


def exhaustive_family(max_nodes):
    out = []
    for t in enumerate_trees(max_nodes, ['a', 'b', 'ab']):
        out.append(mk('cmd', t))
    return out


class Gen:
    """Seeded random grammars: deeper trees, definitions (nested, shuffled, shell specific),
    descriptions, commands with fixed output, undefined nonterminals."""

    def __init__(self, seed, vocab=None, allow_cmd=True, allow_ref=True, allow_descr=True,
                 allow_fb=True, allow_sub=True, cmd_pool=None, max_depth=4, allow_builtin=True,
                 def_cmd=None):
        self.r = random.Random(seed)
        self.vocab = vocab or ['a', 'b', 'ab', 'abc', 'c', '--x', '--y=', 'k=', 'foo', 'fo']
        self.allow_cmd = allow_cmd
        self.allow_ref = allow_ref
        self.allow_descr = allow_descr
        self.allow_fb = allow_fb
        self.allow_sub = allow_sub
        self.cmd_pool = cmd_pool or ['echo x1', 'echo y1; echo y2', "printf 'p1\\np2\\n'", 'echo zz']
        self.max_depth = max_depth
        self.allow_builtin = allow_builtin
        self.def_cmd = def_cmd or (lambda shell, n: 'echo %s%d' % ((shell or 'g')[0], n))
        self.defs = []
        self.nd = 0
        self.wordsafe = {}

    def lit(self, in_word=False):
        t = self.r.choice(self.vocab)
        if self.allow_descr and not in_word and self.r.random() < 0.15:
            return Lit(t, 'D' + t.strip('-='))
        return Lit(t)

    def leaf(self, in_word, allow_any=True):
        x = self.r.random()
        if self.allow_cmd and x < 0.10:
            return Cmd(self.r.choice(self.cmd_pool))
        if self.allow_ref and x < 0.25:
            return self.ref(in_word, allow_any)
        return self.lit(in_word)

    def ref(self, in_word, allow_any):
        x = self.r.random()
        if x < 0.25 and allow_any:
            return Ref(self.r.choice(['_', 'UNDEF', 'FILE']))
        if x < 0.35 and allow_any and not in_word and self.allow_builtin:
            return Ref(self.r.choice(['PATH', 'DIRECTORY']))
        # defined nonterminal: reuse or create
        if self.defs and self.r.random() < 0.4:
            cands = [d for d in self.defs if d[1] is None and (not in_word or self.wordsafe.get(d[0]))
                     and (allow_any or not self._has_any(d[2]))]
            if cands:
                return Ref(self.r.choice(cands)[0])
        if self.nd >= 5:
            return self.lit(in_word)
        self.nd += 1
        name = 'N%d' % self.nd
        self.wordsafe[name] = in_word
        kind = self.r.random()
        if kind < 0.2 and self.allow_cmd:
            # external command with optional shell-specific variants
            self.wordsafe[name] = True
            self.defs.append((name, None, Cmd(self.def_cmd(None, self.nd))))
            for sh in ('bash', 'fish', 'zsh', 'pwsh'):
                if self.r.random() < 0.4:
                    self.defs.append((name, sh, Cmd(self.def_cmd(sh, self.nd))))
        else:
            body = self.expr(self.max_depth - 2, in_word=in_word, allow_any=allow_any, top=False)
            self.defs.append((name, None, body))
        return Ref(name)

    def _has_any(self, e):
        for x in walk(e):
            if x[0] == 'ref':
                nm = x[1]
                ds = [d for d in self.defs if d[0] == nm and d[1] is None]
                if not ds:
                    return True
                if self._has_any(ds[0][2]):
                    return True
        return False

    def expr(self, depth, in_word=False, allow_any=True, top=True):
        r = self.r
        if depth <= 0:
            return self.leaf(in_word, allow_any)
        x = r.random()
        if in_word:
            # inside a word: alternatives, optional, repetition, nested juxtaposition; no spaces
            if x < 0.35:
                return self.leaf(in_word, allow_any)
            if x < 0.65:
                n = r.randint(2, 3)
                return Alt(*[self.expr(depth - 1, True, allow_any, False) for _ in range(n)])
            if x < 0.75 and self.allow_fb:
                return Fb(*[self.expr(depth - 1, True, allow_any, False) for _ in range(2)])
            if x < 0.85:
                return Opt(self.expr(depth - 1, True, allow_any, False))
            if x < 0.92:
                return Many(self.expr(depth - 1, True, False, False))
            return self.word(depth - 1, allow_any)
        if x < 0.15:
            return self.leaf(False, allow_any)
        if x < 0.40:
            n = r.randint(2, 3)
            return Seq(*[self.expr(depth - 1, False, allow_any, False) for _ in range(n)])
        if x < 0.60:
            n = r.randint(2, 3)
            return Alt(*[self.expr(depth - 1, False, allow_any, False) for _ in range(n)])
        if x < 0.70 and self.allow_fb:
            n = r.randint(2, 3)
            return Fb(*[self.expr(depth - 1, False, allow_any, False) for _ in range(n)])
        if x < 0.78:
            return Opt(self.expr(depth - 1, False, allow_any, False))
        if x < 0.86:
            return Many(self.expr(depth - 1, False, allow_any, False))
        if x < 0.97 and self.allow_sub:
            return self.word(depth - 1, allow_any)
        if self.allow_descr:
            return Descr(Alt(Lit(r.choice(self.vocab)), Seq(Lit(r.choice(self.vocab)),
                                                              self.expr(depth - 2, False, allow_any, False))),
                         'DD')
        return self.leaf(False, allow_any)

    def word(self, depth, allow_any=True):
        """A within-word juxtaposition: literal prefix followed by word-safe items; a placeholder
        that matches any word may only be the last item."""
        r = self.r
        n = r.randint(2, 3)
        if r.random() < 0.2:
            # no literal prefix: the word may begin with a repetition / an optional part / alternatives
            first = self.expr(max(depth, 1), in_word=True, allow_any=False, top=False)
            items = [first if first[0] != 'lit' else Many(Alt(first, Lit(r.choice(['+', '-', ',']))))]
        else:
            items = [Lit(r.choice(['--o=', 'k=', 'x', '-p', 'v:']))]
        for i in range(1, n):
            last = (i == n - 1)
            it = self.expr(depth, in_word=True, allow_any=(allow_any and last), top=False)
            if tail_is_lit(items[-1]) and head_is_lit(it):
                it = Alt(it, Lit(r.choice(self.vocab)))
            items.append(it)
        return Sub(*items)

    def grammar(self, nvariants=1):
        self.defs = []
        self.nd = 0
        self.wordsafe = {}
        variants = [self.expr(self.max_depth) for _ in range(nvariants)]
        defs = list(self.defs)
        self.r.shuffle(defs)
        return {'command': 'cmd', 'variants': variants, 'defs': defs}


def random_family(seed, count, **kw):
    out = []
    g = Gen(seed, **kw)
    for i in range(count):
        out.append(g.grammar(nvariants=1 if g.r.random() < 0.7 else 2))
    return out


def loop_heavy_family(seed, count, lits=('foo', 'bar', '--baz', '--quux'), refs=('FILE', 'DIRX'), max_depth=5):
    """Seeded random expressions made of sequence, |, [], ... over few literals and placeholders, no
    within-word items: automata with many loops and many accepting states (the shapes on which a
    partition-refinement bug shows)."""
    r = random.Random(seed)

    def expr(d):
        x = r.random()
        if d <= 0 or x < 0.22:
            if r.random() < 0.2:
                return Ref(r.choice(refs))
            return Lit(r.choice(lits))
        if x < 0.45:
            return Seq(*[expr(d - 1) for _ in range(r.randint(2, 3))])
        if x < 0.70:
            return Alt(*[expr(d - 1) for _ in range(r.randint(2, 3))])
        if x < 0.85:
            return Opt(expr(d - 1))
        return Many(expr(d - 1))
    out = []
    for _ in range(count):
        e = expr(r.randint(3, max_depth))
        if r.random() < 0.5:
            e = Many(e)
        out.append(mk('cmd', e))
    return out


# ---------------------------------------------------------------------------------------------
# twins: one subtree and a slightly varied copy of it in one grammar

def _paths(n, prefix=()):
    yield prefix, n
    k = n[0]
    if k in ('seq', 'alt', 'fb', 'sub'):
        for i, c in enumerate(n[1]):
            yield from _paths(c, prefix + (i,))
    elif k in ('opt', 'many', 'descr'):
        yield from _paths(n[1], prefix + (0,))


def _replace(n, path, new):
    if not path:
        return new
    k = n[0]
    if k in ('seq', 'alt', 'fb', 'sub'):
        cs = list(n[1])
        cs[path[0]] = _replace(cs[path[0]], path[1:], new)
        return (k, tuple(cs))
    if k in ('opt', 'many'):
        return (k, _replace(n[1], path[1:], new))
    if k == 'descr':
        return (k, _replace(n[1], path[1:], new), n[2])
    raise ValueError(n)


def vary(r, t):
    """one small change of t: || <-> |, order of alternatives, a description added / changed / removed, [x] <-> x"""
    nodes = list(_paths(t))
    r.shuffle(nodes)
    for path, n in nodes:
        k = n[0]
        choice = r.random()
        if k == 'fb' and choice < 0.6:
            return _replace(t, path, ('alt', n[1]))
        if k == 'alt' and choice < 0.4:
            return _replace(t, path, ('fb', n[1]))
        if k in ('alt', 'fb') and choice < 0.8:
            cs = list(n[1])
            cs.reverse()
            return _replace(t, path, (k, tuple(cs)))
        if k == 'lit' and choice < 0.5:
            in_sub = any(_node_at(t, path[:i])[0] == 'sub' for i in range(len(path)))
            if not in_sub:
                return _replace(t, path, ('lit', n[1], None if n[2] else 'other ' + n[1].strip('-=')))
        if k == 'opt' and choice < 0.3 and not path[:-1] == () and _node_at(t, path[:-1])[0] != 'sub':
            return _replace(t, path, n[1])
    return t


def _node_at(t, path):
    n = t
    for i in path:
        k = n[0]
        n = n[1][i] if k in ('seq', 'alt', 'fb', 'sub') else n[1]
    return n


def twin_family(seed, count, **kw):
    """grammars that contain a random subtree twice, the second time with one small variation, at two places with
    different continuations (two alternatives, two call variants, two definitions, one after the other)"""
    out = []
    kw.setdefault('max_depth', 3)
    kw.setdefault('allow_builtin', False)
    g = Gen(seed, **kw)
    r = g.r
    tries = 0
    while len(out) < count and tries < count * 20:
        tries += 1
        g.defs = []
        g.nd = 0
        g.wordsafe = {}
        t = g.word(2) if r.random() < 0.6 else g.expr(2, top=False)
        t2 = vary(r, t)
        if t2 == t and r.random() < 0.7:
            continue
        defs = list(g.defs)
        shape = r.randrange(5)
        if shape == 0:
            e = mk('cmd', Alt(Seq(t, Lit('x')), Seq(Lit('-f'), t2, Lit('y'))), defs)
        elif shape == 1:
            e = {'command': 'cmd', 'variants': [Seq(t, Lit('x')), Seq(Lit('sub'), t2, Lit('y'))], 'defs': defs}
        elif shape == 2:
            e = mk('cmd', Alt(Seq(Ref('TP'), Lit('x')), Seq(Lit('-f'), Ref('TQ'), Lit('y'))), defs + [('TP', None, t), ('TQ', None, t2)])
        elif shape == 3:
            e = mk('cmd', Alt(Seq(t, Lit('x')), Seq(t2, Lit('y'))), defs)
        else:
            e = mk('cmd', Seq(t, t2, Lit('end')), defs)
        out.append(e)
    return out
