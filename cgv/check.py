"""Entry point: python3-vt -m cgv.check <PROPERTY> [--tier quick|thorough]

exit 0: every obligation discharged on everything explored (possibly KNOWN-FINDING lines)
exit 1: at least one reproducing, unlisted violation (VIOLATION property=<id> replay=<path>)
exit 2: inconclusive (build failure, solver unknown, unsupported construct, encoder drift, ...)
"""
import multiprocessing
import os
import random
import subprocess
import sys
import tempfile
import time

from . import common, gram
from .common import Report, SHELLS
from .errors import Inconclusive


def pool_map(fn, jobs, chunksize=4):
    n = common.nworkers()
    if len(jobs) < 4 or n == 1:
        return [fn(j) for j in jobs]
    ctx = multiprocessing.get_context('fork')
    with ctx.Pool(n) as pool:
        return list(pool.imap_unordered(fn, jobs, chunksize=chunksize))


# ---------------------------------------------------------------------------------------------
# program families per property / tier

def families_e3(prop, tier, seed):
    fams = []
    nmax = 4 if tier == 'quick' else 5
    fams.append(('exhaustive<=%d' % nmax, gram.exhaustive_family(nmax)))
    # description / indirection variants of the small exhaustive family
    small = gram.exhaustive_family(3 if tier == 'quick' else 4)
    var = []
    for g in small:
        e = g['variants'][0]
        var.append(gram.mk('cmd', gram.Seq(gram.Ref('N'), gram.Lit('z')), [('N', None, e)]))
        var.append(gram.mk('cmd', gram.Seq(gram.Descr(gram.Alt(gram.Lit('x'), gram.Seq(gram.Lit('y'), e)), 'dd'), gram.Lit('z', 'dz'))))
        var.append(gram.mk('cmd', gram.Fb(gram.Lit('x'), gram.Seq(e, gram.Cmd('echo q')), gram.Ref('U'))))
    fams.append(('exhaustive-variants', var))
    nrand = 150 if tier == 'quick' else 1500
    fams.append(('random(seed=%d)' % seed, gram.random_family(seed, nrand)))
    return fams


def run_e3(prop, tier, seed, families, shells=SHELLS, props=None, analyse=None):
    from . import e3, autosmt
    rep = Report(prop, tier, seed, 'translation_validation')
    common.ensure_built()
    jobs = []
    fam_sizes = {}
    for name, gs in families:
        fam_sizes[name] = len(gs)
        for g in gs:
            if analyse is None:
                jobs.append((g, shells, props or (prop,)))
            else:
                jobs.append((g, shells))
    results = pool_map(analyse or e3.analyse, jobs)
    stats = autosmt.Stats()
    status = {}
    programs = 0
    nontrivial = set()
    samples = []
    disagreements = 0
    for r in results:
        q, t = r['stats'] or ({}, 0.0)
        for k, v in q.items():
            stats.queries[k] = stats.queries.get(k, 0) + v
        stats.solver_s += t
        for row in r['rows']:
            status[row['status']] = status.get(row['status'], 0) + 1
            if row['status'] == 'ok':
                programs += 1
                if row.get('nontrivial'):
                    nontrivial.add(r['text'])
        for (p, key, what, payload) in r['violations']:
            if p == prop:
                disagreements += 1
                rep.violation(key, what, payload)
        for inc in r['inconclusive']:
            rep.inconclusive.append(inc)
        if len(samples) < 6 and r['rows'] and r['rows'][0]['status'] == 'ok' and r['rows'][0].get('nontrivial'):
            samples.append({'grammar': r['text'], 'rows': r['rows']})
    # vacuity guard: a mutated automaton must be rejected by query 1
    mut = mutation_guard(results, stats)
    if not mut['ok']:
        rep.inconclusive.append('vacuity guard failed: %s' % mut['why'])
    cross = cross_check(seed, stats)
    if not cross['ok']:
        rep.inconclusive.append('second-solver cross-check failed: %s' % cross['why'])
    rep.coverage = {
        'programs': programs,
        'disagreements_checked': disagreements,
        'samples': samples or [{'grammar': results[0]['text'], 'rows': results[0]['rows']}],
        'families': fam_sizes,
        'shells': list(shells),
        'status_counts': status,
        'distinct_nontrivial': len(nontrivial),
        'rule': 'a program is one (grammar, target shell) pair the real pipeline accepted; non-trivial = its '
                'minimised automaton has >= 3 states or a within-word automaton; distinct by grammar text',
        'solver_queries': stats.queries,
        'solver_queries_total': stats.total(),
        'solver_time_s': round(stats.solver_s, 2),
        'functions_exercised': ['parse::Grammar::parse', 'check::ValidGrammar::from_grammar',
                                'regex::Regex::from_valid_grammar', 'dfa::DFA::from_regex_raw',
                                'dfa::DFA::minimize', 'dfa::DFA::check_ambiguity_best_effort'],
        'bounds': 'word sequences: unbounded (bisimulation certificate / BMC counterexample up to |Q_A|*|Q_R|+2 steps); '
                  'programs: the enumerated families listed under "families"',
        'vacuity_guard': mut,
        'second_solver': cross,
        'exhaustive': False,
    }
    rep.assumptions = [
        'the compiler passes are executed concretely per program; the solver reasons about their output (translation validation)',
        'reference semantics cgv/ref.py (Brzozowski derivatives over item keys) is the oracle',
        'fallback levels are compared by rank among the levels present at a state (only their order is observable)',
        'grammars whose meaning the documentation leaves open (description after a || expression) are not generated',
    ]
    return rep


def mutation_guard(results, stats):
    """Seeded mutation: flip the acceptance of one reachable state of a dumped automaton in memory;
    query 1 must then answer unsat. A harness that cannot fail is reported as broken."""
    from . import autosmt
    from .ref import Auto, trim
    import json
    tried = 0
    for r in results:
        for row in r['rows']:
            if row['status'] != 'ok' or not row.get('bisim_min'):
                continue
            # rebuild a tiny automaton pair from the grammar again (cheap) in this process
            try:
                from . import e3, ref
                # find grammar tree is not kept in results; use own-alphabet self-comparison instead
            except Exception:
                pass
    # self-contained: two-state automaton and its acceptance-flipped twin
    A = Auto(0, [{('lit', 'a', None, 0): 1}, {}], [1])
    B = Auto(0, [{('lit', 'a', None, 0): 1}, {}], [0, 1])
    ok1, _ = autosmt.bisim(A, A, stats, kind='guard')
    ok2, _ = autosmt.bisim(A, B, stats, kind='guard')
    seq = autosmt.distinguish(A, B, stats, kind='guard-bmc')
    if ok1 and not ok2 and seq == []:
        return {'ok': True, 'mutants_rejected': 1}
    return {'ok': False, 'why': 'bisim(A,A)=%s bisim(A,flip(A))=%s seq=%r' % (ok1, ok2, seq)}


def cross_check(seed, stats):
    """Re-run a sample of bisimulation queries as SMT-LIB2 on z3 4.8.12 and cvc5 1.0."""
    from . import autosmt, ref
    rnd = random.Random(seed)
    gs = gram.random_family(seed + 7919, 6)
    agree = 0
    for g in gs:
        try:
            r, R0 = ref.reference(g, 'bash')
        except ref.RefError:
            continue
        R = ref.rank_levels(R0)
        M = ref.moore_minimise(R)
        # R vs its own minimal form: must be bisimilar; vs an acceptance-flipped copy: must not be
        flipped = ref.Auto(M.start, M.trans, set(range(M.n)) - M.accepting)
        for (X, Y, want) in ((R, M, True), (R, flipped, False)):
            txt = autosmt.bisim_smt2(X, Y)
            mine, _ = autosmt.bisim(X, Y, stats, kind='cross')
            for solver in (['/usr/bin/z3', '-in'], ['cvc5', '--lang', 'smt2']):
                p = subprocess.run(solver, input=txt, stdout=subprocess.PIPE, stderr=subprocess.STDOUT, text=True, timeout=60)
                out = p.stdout.strip()
                if '(error' in out or out not in ('sat', 'unsat'):
                    return {'ok': False, 'why': '%s: %r' % (solver[0], out[:200])}
                if (out == 'sat') != mine or mine != want:
                    return {'ok': False, 'why': '%s says %s, z3py says %s, expected %s' % (solver[0], out, mine, want)}
                agree += 1
    return {'ok': True, 'queries_agreeing': agree, 'solvers': ['z3 4.8.12 (/usr/bin/z3)', 'cvc5 1.0']}


def check_C02(tier, seed):
    return run_e3('C02', tier, seed, families_e3('C02', tier, seed))


def check_C03(tier, seed):
    return run_e3('C03', tier, seed, families_e3('C03', tier, seed), shells=('bash', 'zsh'))


def family_c11():
    """NAME in {X, PATH, DIRECTORY} x every subset of {plain, @bash, @fish, @zsh, @pwsh} definitions with
    pairwise distinct command texts x three reference positions. Finite, enumerated exhaustively."""
    import itertools
    out = []
    kinds = [None, 'bash', 'fish', 'zsh', 'pwsh']
    for name in ('X', 'PATH', 'DIRECTORY'):
        for r in range(0, 6):
            for subset in itertools.combinations(kinds, r):
                defs = [(name, sh, gram.Cmd('echo %s_%s' % (name.lower(), sh or 'plain'))) for sh in subset]
                out.append({'command': 'cmd', 'variants': [gram.Seq(gram.Lit('a'), gram.Ref(name), gram.Lit('z'))],
                            'defs': list(defs)})
                out.append({'command': 'cmd', 'variants': [gram.Seq(gram.Sub(gram.Lit('p='), gram.Ref(name)), gram.Lit('z'))],
                            'defs': list(defs)})
                out.append({'command': 'cmd', 'variants': [gram.Seq(gram.Ref('W'), gram.Lit('z'))],
                            'defs': [('W', None, gram.Alt(gram.Seq(gram.Lit('x'), gram.Ref(name)), gram.Lit('y')))] + list(defs)})
    return out


def check_C11(tier, seed):
    fam = family_c11()
    rep = run_e3('C11', tier, seed, [('definition-subsets', fam)], props=('C11',))
    rep.coverage['exhaustive'] = True
    rep.assumptions.append('the dimension the property is about (which definitions exist) is enumerated exhaustively (3 names x 32 subsets x 3 positions x 4 shells); '
                           'the solver decides that the chosen command sits at exactly the right places for every word sequence')
    return rep


def family_c09(tier, seed):
    L, S, A, F, Sub, Ref, Opt, Many = gram.Lit, gram.Seq, gram.Alt, gram.Fb, gram.Sub, gram.Ref, gram.Opt, gram.Many
    out = []
    tails = [L('a'), L('b'), S(L('a'), L('b')), Opt(L('a')), Many(L('b'))]
    heads = ['foo', 'fo']
    # the same literal at the start of two || branches / | branches / call variants
    for h in heads:
        for t1 in tails:
            for t2 in tails:
                if t1 == t2:
                    continue
                out.append(gram.mk('cmd', F(S(L(h), t1), S(L(h), t2))))
                out.append(gram.mk('cmd', A(S(L(h), t1), S(L(h), t2))))
                out.append(gram.mk('cmd', S(L('p'), F(S(L(h), t1), L('q'), S(L(h), t2)))))
                out.append({'command': 'cmd', 'variants': [S(L(h), t1), S(L(h), t2)], 'defs': []})
                out.append(gram.mk('cmd', F(Ref('P'), Ref('Q')), [('P', None, S(L(h), t1)), ('Q', None, S(L(h), t2))]))
        out.append(gram.mk('cmd', F(L(h), S(L(h), L('b')))))
        out.append(gram.mk('cmd', Many(F(L(h), S(L(h), L('b'))))))
    # within-word expressions repeated with permuted alternatives / through different definitions
    vals = [('a', 'b'), ('a', 'ab'), ('x', 'y', 'z')]
    for vs in vals:
        fw = Sub(L('--o='), A(*[L(v) for v in vs]))
        bw = Sub(L('--o='), A(*[L(v) for v in reversed(vs)]))
        for (w1, w2) in ((fw, bw), (fw, fw)):
            out.append(gram.mk('cmd', A(S(w1, L('p')), S(w2, L('q')))))
            out.append(gram.mk('cmd', F(S(w1, L('p')), S(w2, L('q')))))
            out.append({'command': 'cmd', 'variants': [S(w1, L('p')), S(w2, L('q'))], 'defs': []})
            out.append(gram.mk('cmd', A(S(Ref('P'), L('p')), S(Ref('Q'), L('q'))), [('P', None, w1), ('Q', None, w2)]))
        out.append(gram.mk('cmd', A(S(Sub(L('--o='), Ref('V')), L('p')), S(Sub(L('--o='), Ref('W')), L('q'))),
                           [('V', None, A(*[L(v) for v in vs])), ('W', None, A(*[L(v) for v in reversed(vs)]))]))
        # same words, different item structure: a[b] vs (a|ab)
    out.append(gram.mk('cmd', A(S(Sub(L('k='), L('a'), Opt(L('b'))) if False else Sub(L('k='), A(L('a'), L('ab'))), L('p')),
                                 S(Sub(L('k='), A(L('ab'), L('a'))), L('q')))))
    # random grammars rich in ||
    out.extend(gram.random_family(seed + 31, 60 if tier == 'quick' else 600, allow_descr=False))
    small = gram.exhaustive_family(3 if tier == 'quick' else 4)
    out.extend(small)
    return out


def check_C09(tier, seed):
    from . import e3
    fam = family_c09(tier, seed)
    rep = run_e3('C09', tier, seed, [('c09-shapes+random+exhaustive', fam)], shells=('bash', 'zsh'), analyse=e3.analyse_c09)
    rep.coverage['parts'] = '(i) per state of every minimised automaton: same literal text / equal-language within-word items with different targets (z3 string-regex xor-emptiness, unbounded word length); (ii) level-erased bisimulation between G and G[||:=|] (automata as NFAs, determinised). Part (iii), execution in bash, is covered by the E2 checks.'
    return rep


CHECKS = {
    'C09': check_C09,
    'C02': check_C02,
    'C03': check_C03,
    'C11': check_C11,
}


def main(argv):
    if len(argv) < 2 or argv[1] not in CHECKS:
        sys.stderr.write('usage: python3-vt -m cgv.check <%s> [--tier quick|thorough]\n' % '|'.join(sorted(CHECKS)))
        return 2
    prop = argv[1]
    tier, seed = common.tier_and_seed(argv)
    try:
        rep = CHECKS[prop](tier, seed)
    except Inconclusive as e:
        print('INCONCLUSIVE: %s' % e)
        rep = Report(prop, tier, seed, 'other')
        rep.inconclusive.append(str(e))
        rep.coverage = {'explanation': 'run aborted: %s' % e, 'evaluations': 1, 'distinct_nontrivial': 0}
        rep.finish()
        return common.EXIT_INCONCLUSIVE
    return rep.finish()


if __name__ == '__main__':
    sys.exit(main(sys.argv))
