"""Entry point: python3-vt -m cgv.check <PROPERTY> [--tier quick|thorough]

exit 0: every obligation discharged on everything explored (possibly KNOWN-FINDING lines)
exit 1: at least one reproducing, unlisted violation (VIOLATION property=<id> replay=<path>)
exit 2: inconclusive (build failure, solver unknown, unsupported construct, encoder drift, ...)
"""
import multiprocessing
import os
import random
import subprocess
import sys
import tempfile
import time

from . import common, gram
from .common import Report, SHELLS
from .errors import Inconclusive


def pool_map(fn, jobs, chunksize=4):
    n = common.nworkers()
    if len(jobs) < 4 or n == 1:
        return [fn(j) for j in jobs]
    ctx = multiprocessing.get_context('fork')
    with ctx.Pool(n) as pool:
        return list(pool.imap_unordered(fn, jobs, chunksize=chunksize))


# ---------------------------------------------------------------------------------------------
# program families per property / tier

def families_e3(prop, tier, seed):
    fams = []
    nmax = 5 if tier == 'quick' else 6
    fams.append(('exhaustive<=%d' % nmax, gram.exhaustive_family(nmax)))
    # description / indirection variants of the small exhaustive family
    small = gram.exhaustive_family(4 if tier == 'quick' else 5)
    var = []
    for g in small:
        e = g['variants'][0]
        var.append(gram.mk('cmd', gram.Seq(gram.Ref('N'), gram.Lit('z')), [('N', None, e)]))
        var.append(gram.mk('cmd', gram.Seq(gram.Descr(gram.Alt(gram.Lit('x'), gram.Seq(gram.Lit('y'), e)), 'dd'), gram.Lit('z', 'dz'))))
        var.append(gram.mk('cmd', gram.Fb(gram.Lit('x'), gram.Seq(e, gram.Cmd('echo q')), gram.Ref('U'))))
    fams.append(('exhaustive-variants', var))
    nrand = 400 if tier == 'quick' else 4000
    fams.append(('random(seed=%d)' % seed, gram.random_family(seed, nrand)))
    fams.append(('descriptions', description_family(tier)))
    fams.append(('mirrored within-word expressions', mirrored_subword_family()))
    fams.append(('runs of optional items', optional_runs_family(tier)))
    fams.append(('within-word loops through the first character', within_word_loop_family()))
    fams.append(('one definition inside a word and as a word', definition_in_and_out_of_word_family()))
    fams.append(('one within-word expression written with || and with |', same_subword_twice_shapes()))
    fams.append(('twins(seed=%d): a random subtree and a slightly varied copy' % seed, gram.twin_family(seed + 101, 300 if tier == 'quick' else 3000)))
    from . import regress
    fams.append(('regression shapes', [regress.HOPCROFT_SPLITTER]))
    nloop = 1000 if tier == 'quick' else 10000
    fams.append(('loop-heavy random(seed=%d)' % seed, gram.loop_heavy_family(seed, nloop)))
    if prop == 'C03':
        # all-states-accepting automata: every small tree wrapped in [ ] and ([ ])...
        trees = gram.enumerate_trees(4 if tier == 'quick' else 5, ['a', 'b'], with_sub=False, with_fb=False)
        fams.append(('optional-wrapped exhaustive', [gram.mk('cmd', gram.Opt(t)) for t in trees] +
                     [gram.mk('cmd', gram.Many(gram.Opt(t))) for t in trees]))
    return fams


def mirrored_subword_family():
    """two within-word expressions made of the same pieces in a different order, so that their automata have the same
    shape and the same set of inputs: whatever the compiler uses to recognise `the same within-word automaton` must keep them apart"""
    L, S, A, Sub, Opt, Ref = gram.Lit, gram.Seq, gram.Alt, gram.Sub, gram.Opt, gram.Ref
    pairs = []
    for (x, y, z) in (('foo', 'bar', 'baz'), ('-', '--', '=')):
        pairs.append((Sub(L(x), Opt(L(y))), Sub(L(y), Opt(L(x)))))
        pairs.append((Sub(L(x), A(L(y), L(z))), Sub(L(y), A(L(x), L(z)))))
        pairs.append((Sub(L(x), Opt(L(y)), Opt(L(z))), Sub(L(z), Opt(L(y)), Opt(L(x)))))
    out = []
    for (w1, w2) in pairs:
        out.append(gram.mk('cmd', A(S(w1, L('one')), S(w2, L('two')))))
        out.append(gram.mk('cmd', A(w1, w2)))
        out.append(gram.mk('cmd', S(w1, w2, L('end'))))
    defs = [('DAY', None, A(L('1'), L('2'))), ('MON', None, A(L('jan'), L('feb')))]
    out.append(gram.mk('dt', A(Sub(Ref('DAY'), L('/'), Ref('MON')), Sub(Ref('MON'), L('/'), Ref('DAY'))), defs))
    out.append(gram.mk('dt', S(A(Sub(Ref('DAY'), L('/'), Ref('MON')), Sub(Ref('MON'), L('/'), Ref('DAY'))), L('x')), defs))
    return out


def optional_runs_family(tier):
    """sequences in which any run of neighbouring items may be absent (every pattern of optional / mandatory items up to a
    length), also repeated and inside a word: what may follow an item is then decided across several skipped neighbours"""
    L, S, A, Sub, Opt, Many = gram.Lit, gram.Seq, gram.Alt, gram.Sub, gram.Opt, gram.Many
    names = ['a', 'b', 'c', 'd', 'e', 'f', 'g']
    out = []
    nmax = 6 if tier == 'quick' else 7
    for n in range(3, nmax + 1):
        for mask in range(1, 2 ** n):
            if bin(mask).count('1') < 2 and n > 4:
                continue
            items = [Opt(L(names[i])) if (mask >> i) & 1 else L(names[i]) for i in range(n)]
            out.append(gram.mk('cmd', S(*items)))
            if n <= 5:
                out.append(gram.mk('cmd', S(Many(S(*items)) if mask != 2 ** n - 1 else Many(A(*[L(names[i]) for i in range(n)])), L('z'))))
    # other nullable shapes in a run: an alternative with an optional branch, an optional repetition
    out.append(gram.mk('cmd', S(L('a'), A(L('b'), Opt(L('c'))), Opt(Many(L('d'))), Opt(L('e')), L('f'))))
    out.append(gram.mk('cmd', S(L('a'), Opt(Many(L('b'))), Opt(Many(L('c'))), Opt(Many(L('d'))), L('e'))))
    # inside a word
    out.append(gram.mk('cmd', S(Sub(L('-'), Opt(L('a')), Opt(L('b')), Opt(L('c')), L('=')), L('z'))))
    out.append(gram.mk('cmd', S(Sub(L('x'), Opt(L(':a')), Opt(L(':b')), Opt(L(':c')), Opt(L(':d'))), L('z'))))
    return out


def within_word_loop_family():
    """within-word expressions whose automaton returns to its own start state (a repetition that begins at the first
    character of the word), next to states that differ from the start state only in what may follow"""
    L, S, A, Sub, Opt, Many, Ref = gram.Lit, gram.Seq, gram.Alt, gram.Sub, gram.Opt, gram.Many, gram.Ref
    rw = A(L('r'), L('w'))
    words = [
        Sub(Many(Opt(Sub(rw, L(',')))), A(L('r'), L('w'), L('all')), Opt(L('!'))),
        Sub(A(L('all'), Sub(Many(Opt(Sub(rw, L(',')))), A(L('r'), L('w'), L('all')))), Opt(L('!'))),
        Sub(Many(A(L('a'), L('b'))), L('=')),
        Sub(Many(Opt(Sub(L('k'), A(L('1'), L('2')), L(';')))), L('end')),
        Sub(Many(Sub(A(L('x'), L('y')), Opt(L('-')))), Opt(L('.'))),
        Sub(Opt(Many(A(L('+'), L('-')))), A(L('1'), L('2')), Opt(Many(A(L('+'), L('-'))))),
    ]
    out = []
    for w in words:
        out.append(gram.mk('cmd', w))
        out.append(gram.mk('cmd', S(w, L('z'))))
        out.append(gram.mk('cmd', S(L('-p'), A(w, L('none')), Opt(L('z')))))
        out.append(gram.mk('cmd', Many(A(w, L('--')))))
    out.append(gram.mk('cmd', A(S(words[0], L('x')), S(L('-f'), words[1], L('y')))))
    return out


def definition_in_and_out_of_word_family():
    """a definition whose body has a within-word expression below another node, referenced inside a word and as a word of
    its own (in both orders): the body is one shared subtree in the compiler"""
    L, S, A, F, Sub, Opt, Ref = gram.Lit, gram.Seq, gram.Alt, gram.Fb, gram.Sub, gram.Opt, gram.Ref
    out = []
    bodies = [A(Sub(L('a'), Ref('Y')), L('b')), S(Sub(L('a'), Ref('Y'))), Opt(Sub(L('a'), Ref('Y'))), F(L('b'), Sub(L('a'), Ref('Y')))]
    ydef = ('Y', None, A(L('y1'), L('y2')))
    for body in bodies:
        defs = [('X', None, body), ydef]
        if body[0] in ('alt', 'fb', 'opt'):
            inword = Sub(L('--opt='), Ref('X'))
            out.append(gram.mk('cmd', A(inword, Ref('X')), defs))
            out.append(gram.mk('cmd', A(Ref('X'), inword), defs))
            out.append(gram.mk('cmd', S(inword, Ref('X'), L('end')), defs))
            out.append({'command': 'cmd', 'variants': [S(L('s'), inword), S(L('t'), Ref('X'))], 'defs': defs})
        out.append(gram.mk('cmd', A(S(L('p'), Ref('X')), S(L('q'), Ref('X'), L('z'))), defs))
    return out


def description_family(tier):
    """A description written after a group: in each alternative the leftmost literal without a description of
    its own gets it, once per sequence; literals with their own description keep it."""
    L, S, A, Sub, Opt, Many, D = gram.Lit, gram.Seq, gram.Alt, gram.Sub, gram.Opt, gram.Many, gram.Descr
    own = [L('v', 'own v'), L('w')]
    out = []
    leaves = [L('a'), L('b', 'own b'), L('c')]
    groups = []
    for x in leaves:
        for y in leaves:
            if x[1] == y[1]:
                continue
            groups += [A(x, y), S(x, y), A(S(x, y), L('e')), S(A(x, y), L('e')), Opt(S(x, y)), Many(A(x, y)), A(x, S(y, L('e', 'own e'))),
                       S(x, Opt(y), L('e'))]
    for grp in groups:
        out.append(gram.mk('cmd', S(D(grp, 'grp'), L('z'))))
        out.append(gram.mk('cmd', S(L('p', 'own p'), D(grp, 'grp'), L('z', 'own z'))))
    out.append(gram.mk('cmd', S(D(A(Sub(L('--o='), A(L('x'), L('y'))), S(L('--o'), L('x'))), 'opt'), L('z'))))
    out.append(gram.mk('cmd', S(gram.Ref('N'), L('z')), [('N', None, D(A(L('a'), S(L('b', 'own b'), L('c'))), 'grp'))]))
    return out if tier != 'quick' else out


def run_e3(prop, tier, seed, families, shells=SHELLS, props=None, analyse=None):
    from . import e3, autosmt
    rep = Report(prop, tier, seed, 'translation_validation')
    common.ensure_built()
    jobs = []
    fam_sizes = {}
    for name, gs in families:
        fam_sizes[name] = len(gs)
        for g in gs:
            if analyse is None:
                jobs.append((g, shells, props or (prop,)))
            else:
                jobs.append((g, shells))
    results = pool_map(analyse or e3.analyse, jobs)
    stats = autosmt.Stats()
    status = {}
    programs = 0
    nontrivial = set()
    samples = []
    disagreements = 0
    for r in results:
        q, t = r['stats'] or ({}, 0.0)
        for k, v in q.items():
            stats.queries[k] = stats.queries.get(k, 0) + v
        stats.solver_s += t
        for row in r['rows']:
            status[row['status']] = status.get(row['status'], 0) + 1
            if row['status'] == 'ok':
                programs += 1
                if row.get('nontrivial'):
                    nontrivial.add(r['text'])
        for (p, key, what, payload) in r['violations']:
            if p == prop:
                disagreements += 1
                rep.violation(key, what, payload)
        for inc in r['inconclusive']:
            rep.inconclusive.append(inc)
        if len(samples) < 6 and r['rows'] and r['rows'][0]['status'] == 'ok' and r['rows'][0].get('nontrivial'):
            samples.append({'grammar': r['text'], 'rows': r['rows']})
    skipped = status.get('rejected-by-stricter-within-word-rule', 0)
    if skipped * 4 > max(1, sum(status.values())):
        rep.inconclusive.append('%d of %d programs were rejected by complgen\'s within-word rules: too many to call the family explored'
                                % (skipped, sum(status.values())))
    # vacuity guard: a mutated automaton must be rejected by query 1
    mut = mutation_guard(results, stats)
    if not mut['ok']:
        rep.inconclusive.append('vacuity guard failed: %s' % mut['why'])
    cross = cross_check(seed, stats)
    if not cross['ok']:
        rep.inconclusive.append('second-solver cross-check failed: %s' % cross['why'])
    rep.coverage = {
        'programs': programs,
        'disagreements_checked': disagreements,
        'samples': samples or [{'grammar': results[0]['text'], 'rows': results[0]['rows']}],
        'families': fam_sizes,
        'shells': list(shells),
        'status_counts': status,
        'distinct_nontrivial': len(nontrivial),
        'rule': 'a program is one (grammar, target shell) pair the real pipeline accepted; non-trivial = its '
                'minimised automaton has >= 3 states or a within-word automaton; distinct by grammar text',
        'solver_queries': stats.queries,
        'solver_queries_total': stats.total(),
        'solver_time_s': round(stats.solver_s, 2),
        'functions_exercised': ['parse::Grammar::parse', 'check::ValidGrammar::from_grammar',
                                'regex::Regex::from_valid_grammar', 'dfa::DFA::from_regex_raw',
                                'dfa::DFA::minimize', 'dfa::DFA::check_ambiguity_best_effort'],
        'bounds': 'word sequences: unbounded (bisimulation certificate / BMC counterexample up to |Q_A|*|Q_R|+2 steps); '
                  'programs: the enumerated families listed under "families"',
        'vacuity_guard': mut,
        'second_solver': cross,
        'exhaustive': False,
    }
    rep.assumptions = [
        'the compiler passes are executed concretely per program; the solver reasons about their output (translation validation)',
        'reference semantics cgv/ref.py (Brzozowski derivatives over item keys) is the oracle',
        'fallback levels are compared by rank among the levels present at a state (only their order is observable)',
        'grammars whose meaning the documentation leaves open (description after a || expression) are not generated',
    ]
    return rep


def mutation_guard(results, stats):
    """Seeded mutation: flip the acceptance of one reachable state of a dumped automaton in memory;
    query 1 must then answer unsat. A harness that cannot fail is reported as broken."""
    from . import autosmt
    from .ref import Auto, trim
    import json
    tried = 0
    for r in results:
        for row in r['rows']:
            if row['status'] != 'ok' or not row.get('bisim_min'):
                continue
            # rebuild a tiny automaton pair from the grammar again (cheap) in this process
            try:
                from . import e3, ref
                # find grammar tree is not kept in results; use own-alphabet self-comparison instead
            except Exception:
                pass
    # self-contained: two-state automaton and its acceptance-flipped twin
    A = Auto(0, [{('lit', 'a', None, 0): 1}, {}], [1])
    B = Auto(0, [{('lit', 'a', None, 0): 1}, {}], [0, 1])
    ok1, _ = autosmt.bisim(A, A, stats, kind='guard')
    ok2, _ = autosmt.bisim(A, B, stats, kind='guard')
    seq = autosmt.distinguish(A, B, stats, kind='guard-bmc')
    if ok1 and not ok2 and seq == []:
        return {'ok': True, 'mutants_rejected': 1}
    return {'ok': False, 'why': 'bisim(A,A)=%s bisim(A,flip(A))=%s seq=%r' % (ok1, ok2, seq)}


def cross_check(seed, stats):
    """Re-run a sample of bisimulation queries as SMT-LIB2 on z3 4.8.12 and cvc5 1.0."""
    from . import autosmt, ref
    rnd = random.Random(seed)
    gs = gram.random_family(seed + 7919, 6)
    agree = 0
    for g in gs:
        try:
            r, R0 = ref.reference(g, 'bash')
        except ref.RefError:
            continue
        R = ref.rank_levels(R0)
        M = ref.moore_minimise(R)
        # R vs its own minimal form: must be bisimilar; vs an acceptance-flipped copy: must not be
        flipped = ref.Auto(M.start, M.trans, set(range(M.n)) - M.accepting)
        for (X, Y, want) in ((R, M, True), (R, flipped, False)):
            txt = autosmt.bisim_smt2(X, Y)
            mine, _ = autosmt.bisim(X, Y, stats, kind='cross')
            for solver in (['/usr/bin/z3', '-in'], ['cvc5', '--lang', 'smt2']):
                p = subprocess.run(solver, input=txt, stdout=subprocess.PIPE, stderr=subprocess.STDOUT, text=True, timeout=60)
                out = p.stdout.strip()
                if '(error' in out or out not in ('sat', 'unsat'):
                    return {'ok': False, 'why': '%s: %r' % (solver[0], out[:200])}
                if (out == 'sat') != mine or mine != want:
                    return {'ok': False, 'why': '%s says %s, z3py says %s, expected %s' % (solver[0], out, mine, want)}
                agree += 1
    return {'ok': True, 'queries_agreeing': agree, 'solvers': ['z3 4.8.12 (/usr/bin/z3)', 'cvc5 1.0']}


def check_C02(tier, seed):
    return run_e3('C02', tier, seed, families_e3('C02', tier, seed))


def check_C03(tier, seed):
    return run_e3('C03', tier, seed, families_e3('C03', tier, seed), shells=('bash', 'zsh'))


def family_c11():
    """NAME in {X, PATH, DIRECTORY} x every subset of {plain, @bash, @fish, @zsh, @pwsh} definitions with
    pairwise distinct command texts x three reference positions. Finite, enumerated exhaustively."""
    import itertools
    out = []
    kinds = [None, 'bash', 'fish', 'zsh', 'pwsh']
    for name in ('X', 'PATH', 'DIRECTORY'):
        for r in range(0, 6):
            for subset in itertools.combinations(kinds, r):
                defs = [(name, sh, gram.Cmd('echo %s_%s' % (name.lower(), sh or 'plain'))) for sh in subset]
                out.append({'command': 'cmd', 'variants': [gram.Seq(gram.Lit('a'), gram.Ref(name), gram.Lit('z'))],
                            'defs': list(defs)})
                out.append({'command': 'cmd', 'variants': [gram.Seq(gram.Sub(gram.Lit('p='), gram.Ref(name)), gram.Lit('z'))],
                            'defs': list(defs)})
                out.append({'command': 'cmd', 'variants': [gram.Seq(gram.Ref('W'), gram.Lit('z'))],
                            'defs': [('W', None, gram.Alt(gram.Seq(gram.Lit('x'), gram.Ref(name)), gram.Lit('y')))] + list(defs)})
                # several references to the same name: at top level twice, inside a word, and through a definition
                out.append({'command': 'cmd', 'variants': [gram.Seq(gram.Ref(name), gram.Lit('m'), gram.Ref(name),
                                                                    gram.Sub(gram.Lit('p='), gram.Ref(name)), gram.Ref('W'))],
                            'defs': [('W', None, gram.Alt(gram.Seq(gram.Lit('x'), gram.Ref(name)), gram.Lit('y')))] + list(defs)})
                out.append({'command': 'cmd', 'variants': [gram.Seq(gram.Lit('a'), gram.Ref(name)), gram.Seq(gram.Lit('b'), gram.Ref(name))],
                            'defs': list(defs)})
    return out


def check_C11(tier, seed):
    fam = family_c11()
    rep = run_e3('C11', tier, seed, [('definition-subsets', fam)], props=('C11',))
    rep.coverage['exhaustive'] = True
    rep.assumptions.append('the dimension the property is about (which definitions exist) is enumerated exhaustively (3 names x 32 subsets x 5 reference patterns x 4 shells); '
                           'the solver decides that the chosen command sits at exactly the right places for every word sequence')
    return rep


def same_subword_twice_shapes():
    """the same within-word expression written at two places that differ only in `||` versus `|` (or in the order of the
    `||` branches): the two occurrences are different expectations although they are made of the same pieces"""
    L, S, A, F, Sub, Ref = gram.Lit, gram.Seq, gram.Alt, gram.Fb, gram.Sub, gram.Ref
    out = []
    for (fb, alt) in ((Sub(L('--o='), F(L('a'), L('b'))), Sub(L('--o='), A(L('a'), L('b')))),
                      (Sub(L('--m='), F(L('fast'), L('slow'), L('off'))), Sub(L('--m='), F(L('fast'), A(L('slow'), L('off'))))),
                      (Sub(L('k='), F(L('u'), L('v'))), Sub(L('k='), F(L('v'), L('u'))))):
        for (first, second) in ((fb, alt), (alt, fb)):
            out.append(gram.mk('cmd', A(S(first, L('x')), S(L('-f'), second, L('y')))))
            out.append({'command': 'cmd', 'variants': [S(first, L('x')), S(L('sub'), second, L('y'))], 'defs': []})
            out.append(gram.mk('cmd', A(S(Ref('P'), L('x')), S(L('-f'), Ref('Q'), L('y'))), [('P', None, first), ('Q', None, second)]))
    return out


def family_c09(tier, seed):
    L, S, A, F, Sub, Ref, Opt, Many = gram.Lit, gram.Seq, gram.Alt, gram.Fb, gram.Sub, gram.Ref, gram.Opt, gram.Many
    out = list(same_subword_twice_shapes())
    # one literal expected in one state at two || levels, the later level written first, next to another first-level candidate
    out.append({'command': 'cmd', 'variants': [S(F(L('x'), L('a')), L('p')), S(L('a'), L('q'))], 'defs': []})
    out.append(gram.mk('cmd', A(S(F(L('x'), L('a')), L('p')), S(L('a'), L('q')))))
    out.append(gram.mk('cmd', A(S(F(L('a'), L('b')), L('x')), S(F(L('b'), L('a')), L('y')))))
    out.append(gram.mk('cmd', A(S(F(L('x'), L('y'), L('a')), L('p')), S(F(L('z'), L('a')), L('q')), S(L('a'), L('r')))))
    out.append(gram.mk('cmd', S(A(Sub(L('--o='), F(L('x'), L('a'))), Sub(L('--o='), A(L('a'), L('b')))), L('z'))))
    tails = [L('a'), L('b'), S(L('a'), L('b')), Opt(L('a')), Many(L('b'))]
    heads = ['foo', 'fo']
    # the same literal at the start of two || branches / | branches / call variants
    for h in heads:
        for t1 in tails:
            for t2 in tails:
                if t1 == t2:
                    continue
                out.append(gram.mk('cmd', F(S(L(h), t1), S(L(h), t2))))
                out.append(gram.mk('cmd', A(S(L(h), t1), S(L(h), t2))))
                out.append(gram.mk('cmd', S(L('p'), F(S(L(h), t1), L('q'), S(L(h), t2)))))
                out.append(gram.mk('cmd', F(L('q'), S(L(h), t1), S(L(h), t2))))
                out.append({'command': 'cmd', 'variants': [S(L(h), t1), S(L(h), t2)], 'defs': []})
                out.append(gram.mk('cmd', F(Ref('P'), Ref('Q')), [('P', None, S(L(h), t1)), ('Q', None, S(L(h), t2))]))
        out.append(gram.mk('cmd', F(L(h), S(L(h), L('b')))))
        out.append(gram.mk('cmd', Many(F(L(h), S(L(h), L('b'))))))
    # the same literal with different descriptions (documented to be rejected: if such a grammar is accepted it is an accepted
    # grammar with one word read as two items)
    for (d1, d2) in (('first reading', 'second reading'), ('only one', None), (None, 'only two')):
        for t1, t2 in ((L('x'), L('y')), (S(L('x'), L('e')), L('x'))):
            out.append(gram.mk('cmd', F(S(L('foo', d1), t1), S(L('foo', d2), t2))))
            out.append(gram.mk('cmd', A(S(L('foo', d1), t1), S(L('foo', d2), t2))))
            out.append(gram.mk('cmd', F(L('q'), S(L('foo', d1), t1), S(L('foo', d2), t2))))
            out.append({'command': 'cmd', 'variants': [S(L('foo', d1), t1), S(L('foo', d2), t2)], 'defs': []})
    # the same external command / within-word expression at the start of two || branches
    C = gram.Cmd
    for item in (C('echo x'), Ref('U'), Sub(L('k='), A(L('1'), L('2'))), Sub(L('k='), C('echo v'))):
        defs = [('U', None, C('echo alice; echo bob'))] if item == Ref('U') else []
        for t1, t2 in ((L('a'), L('b')), (L('a'), S(L('a'), L('b'))), (Opt(L('a')), L('b'))):
            out.append(gram.mk('cmd', F(S(item, t1), S(item, t2)), defs))
            out.append(gram.mk('cmd', F(S(item, t1), L('q'), S(item, t2)), defs))
            out.append(gram.mk('cmd', F(L('q'), S(item, t1), S(item, t2)), defs))
            out.append(gram.mk('cmd', S(L('p'), Many(F(S(item, t1), S(item, t2)))), defs))
    # within-word expressions repeated with permuted alternatives / through different definitions
    vals = [('a', 'b'), ('a', 'ab'), ('x', 'y', 'z')]
    for vs in vals:
        fw = Sub(L('--o='), A(*[L(v) for v in vs]))
        bw = Sub(L('--o='), A(*[L(v) for v in reversed(vs)]))
        for (w1, w2) in ((fw, bw), (fw, fw)):
            out.append(gram.mk('cmd', A(S(w1, L('p')), S(w2, L('q')))))
            out.append(gram.mk('cmd', F(S(w1, L('p')), S(w2, L('q')))))
            out.append({'command': 'cmd', 'variants': [S(w1, L('p')), S(w2, L('q'))], 'defs': []})
            out.append(gram.mk('cmd', A(S(Ref('P'), L('p')), S(Ref('Q'), L('q'))), [('P', None, w1), ('Q', None, w2)]))
        out.append(gram.mk('cmd', A(S(Sub(L('--o='), Ref('V')), L('p')), S(Sub(L('--o='), Ref('W')), L('q'))),
                           [('V', None, A(*[L(v) for v in vs])), ('W', None, A(*[L(v) for v in reversed(vs)]))]))
        # same words, different item structure: a[b] vs (a|ab)
    out.append(gram.mk('cmd', A(S(Sub(L('k='), L('a'), Opt(L('b'))) if False else Sub(L('k='), A(L('a'), L('ab'))), L('p')),
                                 S(Sub(L('k='), A(L('ab'), L('a'))), L('q')))))
    # random grammars rich in ||
    out.extend(gram.random_family(seed + 31, 60 if tier == 'quick' else 600, allow_descr=False))
    small = gram.exhaustive_family(3 if tier == 'quick' else 4)
    out.extend(small)
    # a random subtree and a slightly varied copy of it (|| <-> |, permuted alternatives, descriptions) at two places
    out.extend(gram.twin_family(seed + 57, 80 if tier == 'quick' else 800, allow_descr=False))
    return out


def probeify(n, table):
    """replace every {{{ ... }}} command by a probe command (fixed output), consistently per command text"""
    k = n[0]
    if k == 'cmd':
        ids = ['c1', 'c2', 'c3', 'c4']
        pid = table.setdefault(n[1], ids[len(table) % 4])
        return gram.Cmd(probe(pid))
    if k in ('seq', 'alt', 'fb', 'sub'):
        return (k, tuple(probeify(c, table) for c in n[1]))
    if k in ('opt', 'many'):
        return (k, probeify(n[1], table))
    if k == 'descr':
        return (k, probeify(n[1], table), n[2])
    return n


def run_c09_bash_part(tier, seed, rep):
    """part (iii): the emitted bash script on the C09 shapes: matching and candidates equal the union
    reading of the grammar (which is the reading of G[||:=|] for matching), all words symbolic."""
    from . import e2
    from . import e3
    fam = []
    skipped = {'built-in file completion (not a fixed-output command)': 0, 'two equal within-word expressions at one point (part i, known finding)': 0}
    for g in family_c09(tier, seed)[:170 if tier == 'quick' else 400]:
        if any(n[0] == 'ref' and n[1] in ('PATH', 'DIRECTORY') for e in list(g['variants']) + [d[2] for d in g['defs']] for n in gram.walk(e)):
            skipped['built-in file completion (not a fixed-output command)'] += 1
            continue
        part1 = e3.analyse_c09((g, ('bash',)))
        if any(v[1] in ('equal-subwords-two-targets', 'identical-subwords-two-targets') for v in part1['violations']):
            # the bash behaviour on these grammars is the known finding of part (i); it is reported there
            skipped['two equal within-word expressions at one point (part i, known finding)'] += 1
            continue
        table = {}
        g2 = {'command': g['command'], 'variants': [probeify(v, table) for v in g['variants']],
              'defs': [(n, sh, probeify(e, table)) for (n, sh, e) in g['defs']]}
        fam.append(g2)
    sub = run_e2('C09', tier, seed, [('c09 shapes in bash', fam)], K=2, configs=[e2.DEFAULT_WB],
                 allow_regions=('same-literal-two-labels',), extra={'budget_s': 60})
    # differences explained only by the other properties' known deviations are theirs
    other = set(e2.KNOWN_DEVS)
    for (k, w, p) in sub.violations:
        if set(k.split('+')) <= other:
            continue
        rep.violations.append(('bash:' + k, w, p))
    rep.inconclusive += sub.inconclusive
    rep.coverage['bash_part'] = {k: sub.coverage[k] for k in ('programs', 'paths', 'status_counts', 'solver_queries_total', 'solver_time_s',
                                                               'counterexamples_replayed_in_real_bash', 'interpreter_runs_validated_against_real_bash',
                                                               'excluded_by_region_query', 'bounds')}
    rep.coverage['bash_part']['grammars_left_to_other_parts'] = skipped
    rep.coverage['solver_queries_total'] = rep.coverage.get('solver_queries_total', 0) + sub.coverage['solver_queries_total']


def check_C09(tier, seed):
    from . import e3
    fam = family_c09(tier, seed)
    rep = run_e3('C09', tier, seed, [('c09-shapes+random+exhaustive', fam)], shells=('bash', 'zsh'), analyse=e3.analyse_c09)
    run_c09_bash_part(tier, seed, rep)
    rep.coverage['parts'] = '(i) per state of every minimised automaton: same literal text / equal-language within-word items with different targets (z3 string-regex xor-emptiness, unbounded word length); (ii) level-erased bisimulation between G and G[||:=|] (automata as NFAs, determinised); (iii) E2 on the same shapes in bash (coverage.bash_part): grammars where two within-word expressions accept a common word are left to part (i).'
    return rep


def family_c04(tier, seed):
    L, S, A, F, Sub, Ref, Opt, Many, Cmd = gram.Lit, gram.Seq, gram.Alt, gram.Fb, gram.Sub, gram.Ref, gram.Opt, gram.Many, gram.Cmd
    out = []
    col = Ref('COLOR')
    cdef = [('COLOR', None, Cmd('echo red; echo green'))]
    # several within-word expressions: same shape / different literals, same literals / different levels, different shapes
    words = [
        Sub(L('--fg='), F(L('default'), col)), Sub(L('--bg='), F(col, L('default'))),
        Sub(L('--a='), A(L('x'), L('y'))), Sub(L('--b='), A(L('p'), L('q'))), Sub(L('--c='), A(L('x'), L('y'), L('z'))),
        Sub(L('--d='), F(L('x'), L('y'))), Sub(L('--e='), F(L('y'), L('x'))), Sub(L('--f='), Opt(L('x')), L('y')),
        Sub(L('--g='), col), Sub(L('--h='), Ref('_')), Sub(L('--i='), A(col, L('k', 'descr k'))), Sub(L('--j='), F(L('x'), L('y'), L('w'))),
        Sub(L('--k='), F(A(L('x'), L('y')), L('w'))), Sub(L('--l='), F(L('x'), A(L('y'), L('w')))),
    ]
    import itertools
    rnd = random.Random(seed)
    pairs = list(itertools.combinations(range(len(words)), 2))
    rnd.shuffle(pairs)
    for (i, j) in pairs[:40 if tier == 'quick' else len(pairs)]:
        out.append(gram.mk('paint', Many(A(words[i], words[j])), cdef))
    for (i, j, k) in list(itertools.combinations(range(len(words)), 3))[:30 if tier == 'quick' else 200]:
        out.append(gram.mk('paint', S(A(words[i], words[j]), Opt(words[k]), L('end', 'the end')), cdef))
    out.append(gram.mk('paint', F(S(L('a', 'da'), words[0]), S(L('b'), words[1]), Many(words[3])), cdef))
    # a description equal to the literal's own text, one shared by two literals, one that is another literal's text
    out.append(gram.mk('paint', S(Sub(L('--color='), A(L('always', 'always'), L('never', 'no colors'), L('auto'))), L('end', 'end'))))
    out.append(gram.mk('paint', S(A(Sub(L('--color='), A(L('always', 'always'), L('never'))), Sub(L('--colour='), A(L('always', 'always'), L('never')))),
                                  L('x', 'y'), L('y', 'x'))))
    out.append(gram.mk('paint', S(A(L('--color', 'same text'), L('--colour', 'same text')), Sub(L('-'), A(L('a', 'same text'), L('b', 'b'))))))
    # shell-specific commands (zsh: compadd kind), built-ins, placeholders
    out.append({'command': 'tool', 'variants': [S(Ref('U'), Ref('PATH'), Sub(L('u='), Ref('U')), Ref('DIRECTORY'), Ref('ANY'))],
                'defs': [('U', 'zsh', Cmd('_users')), ('U', 'fish', Cmd('__fish_complete_users')), ('U', None, Cmd('cat /etc/passwd | cut -d: -f1')),
                         ('U', 'pwsh', Cmd('Get-LocalUser | ForEach-Object { $_.Name }'))]})
    out.extend(loops_to_start_shapes())
    # command names that are not identifiers (function names and the registration line are built from them)
    for name in ('g++', 'mkfs.ext4', 'foo@bar', 'docker-compose', '7z', 'a:b', 'x=y'):
        out.append(gram.mk(name, S(Sub(L('--o='), A(L('a'), L('b'))), Opt(col), L('end')), cdef))
    fams = [('within-word table sharing', out)]
    fams.append(('exhaustive<=%d' % (4 if tier == 'quick' else 5), gram.exhaustive_family(4 if tier == 'quick' else 5)))
    fams.append(('random(seed=%d)' % seed, gram.random_family(seed, 150 if tier == 'quick' else 1500)))
    return fams


def check_C04(tier, seed):
    from . import e4
    rep = run_e3('C04', tier, seed, family_c04(tier, seed), analyse=e4.analyse)
    rep.coverage['functions_exercised'] = ['bash::write_completion_script', 'fish::write_completion_script', 'zsh::write_completion_script',
                                           'pwsh::write_completion_script', 'tables::get_lookup_tables (+ shape_hash / isomorphic_to)'] + rep.coverage['functions_exercised']
    rep.coverage['what_is_compared'] = ('literal list, description per literal, next state per (state, literal/command/within-word/any-word), candidates per state and level, '
                                        'start state, command function bodies, registration line -- decoded from the script text by cgv/decoders.py with the shell\'s '
                                        'indexing base and quoting rules; the decoded automaton (prefix-closed: scripts carry no accepting states) is related by query 1 to '
                                        'the grammar\'s reference automaton and to the minimised automaton dumped from the library')
    rep.assumptions.append('only the data statements are read; the run-time code of the fish/zsh/pwsh templates is not executed (those shells are not installed)')
    rep.assumptions.append('bash scripts carry no descriptions: descriptions are compared for fish, zsh and pwsh only')
    return rep


def family_c16(tier, seed):
    L, S, A, F, Sub, Ref, Opt, Many, Cmd = gram.Lit, gram.Seq, gram.Alt, gram.Fb, gram.Sub, gram.Ref, gram.Opt, gram.Many, gram.Cmd
    out = []
    out.append(gram.mk('cmd', Opt(L('--help'))))
    out.append(gram.mk('cmd', Many(Opt(A(L('foo'), L('bar'))))))
    out.append(gram.mk('cmd', S(Opt(L('--verbose')), Opt(Ref('FILE')))))
    out.append(gram.mk('cmd', S(A(Sub(L('--a='), A(L('x'), L('y'))), Sub(L('--b='), Opt(L('p')), L('q'))), Sub(L('--a='), A(L('x'), L('y'))), L('end', 'the end'))))
    out.append(gram.mk('cmd', F(S(Sub(L('k='), Cmd('echo v')), L('a')), S(Ref('PATH'), L('b', 'descr b')), Ref('U'))))
    out.append(gram.mk('cmd', S(L('a', 'say "hi"'), L('b\\c', 'back\\slash'), Cmd('echo "q" \\ $x'), Ref('we"ird'))))
    fams = [('dump shapes', out)]
    fams.append(('exhaustive<=%d' % (4 if tier == 'quick' else 5), gram.exhaustive_family(4 if tier == 'quick' else 5)))
    fams.append(('random(seed=%d)' % seed, gram.random_family(seed, 100 if tier == 'quick' else 1000)))
    return fams


def check_C16(tier, seed):
    from . import e16, e1, mirsym, autosmt
    rep = run_e3('C16', tier, seed, family_c16(tier, seed), analyse=e16.analyse)
    stats = autosmt.Stats()
    mir = mirsym.dump_mir()
    # E1 for make_dot_string_constant (well-terminated DOT string for all ASCII strings up to N bytes)
    N = 8 if tier == 'quick' else 12
    cgvp = common.Cgv()
    ktext = mirsym.function_text(mir, 'make_dot_string_constant')
    nvalid = e1.validate_translator(cgvp, {'dot': ktext}, seed)
    holds, cex, models, ncells = e1.solve_kernel(ktext, 'dot', N, stats, require='terminated')
    if not holds:
        const = cgvp.strconst(cex)['dot']
        okc, _, _ = __import__('cgv.quoting', fromlist=['decode']).decode('dot', const.encode())
        if okc:
            raise Inconclusive('E1 counterexample for make_dot_string_constant does not reproduce')
        rep.violation('dot-string-constant-not-terminated', 'make_dot_string_constant(%r) = %s is not one well-terminated DOT string' % (cex, const),
                      {'string': cex, 'constant': const})
    cgvp.close()
    rows, assumptions, bad = e16.check_sites(mir, stats)
    # replay: only a hostile text that really breaks a real dump is a violation
    if bad:
        reproduced = False
        for (kind, t, g) in e16.replay_battery():
            text = gram.print_grammar(g)
            rc, dfa_txt, rx_txt, err = e16.dump_files(text, 'bash')
            if rc != 0:
                continue
            for fname, content in (('--dfa', dfa_txt), ('--regex', rx_txt)):
                try:
                    e16.dotread.parse(content)
                except e16.dotread.DotError as e:
                    reproduced = True
                    rep.violation('%s-malformed:%s' % (fname.strip('-'), kind),
                                  'a %s containing %r makes the %s file invalid DOT (%s); solver witness for the format site %r: %r'
                                  % (kind, t, fname, e, bad[0][1], bad[0][3]), {'grammar': text, 'dot': content})
        if not reproduced:
            rep.inconclusive.append('the solver finds label values that break the format site %r (%r) but none of the replay grammars reproduces it'
                                    % (bad[0][1], bad[0][3]))
    # translator validation of the template decoding on real dumps
    files = []
    for g in family_c16(tier, seed)[0][1][:5]:
        rc, dfa_txt, rx_txt, err = e16.dump_files(gram.print_grammar(g), 'fish')
        if rc == 0:
            files += [dfa_txt, rx_txt]
    try:
        nlines = e16.lines_in_site_languages(mir, files, stats)
    except Inconclusive as e:
        # no verdict from this part; what the other parts found is still reported
        rep.inconclusive.append(str(e))
        nlines = 0
    rep.coverage['e1_prime'] = {'format_sites': rows, 'real_lines_matched_against_site_languages': nlines,
                                'make_dot_string_constant': {'bound': 'all ASCII strings up to %d bytes' % N, 'holds': holds, 'cells': ncells,
                                                             'translator_validation_strings': nvalid},
                                'label_domain': 'literal / description / nonterminal / command text: every string (z3 sequence theory, unbounded length)'}
    for k, v in stats.queries.items():
        rep.coverage['solver_queries'][k] = rep.coverage['solver_queries'].get(k, 0) + v
    rep.coverage['solver_queries_total'] = sum(rep.coverage['solver_queries'].values())
    rep.coverage['functions_exercised'] = ['dfa::do_to_dot', 'regex::do_to_dot', 'regex::make_dot_string_constant', 'DFA::to_dot', 'Regex::to_dot'] + rep.coverage['functions_exercised']
    rep.assumptions += sorted(assumptions)
    rep.assumptions.append('the buffer filled by diagnostic_display_input is over-approximated by "any string" before its replace chain is applied')
    rep.assumptions.append('DOT statement language and DOT reader cgv/dotread.py follow the DOT grammar; graphviz itself is not installed')
    rep.assumptions.append('the fallback level of a within-word item is not shown in the --dfa drawing, so it is not compared')
    return rep


# ---------------------------------------------------------------------------------------------
# E2: symbolic execution of the emitted bash script

PROBES = {'c1': 'bbb\nccc\n', 'c2': 'dd\n', 'c3': 'x1\ny1\n', 'c4': 'q\n'}


def probe(pid):
    return 'cgvprobe %s "$1" "$2"' % pid


def gen_e2(seed, count, **kw):
    pool = [probe(p) for p in ('c1', 'c2', 'c3', 'c4')]
    ids = ['c1', 'c2', 'c3', 'c4']
    kw.setdefault('allow_builtin', False)
    g = gram.Gen(seed, cmd_pool=pool, def_cmd=lambda sh, n: probe(ids[(n + len(sh or '')) % 4]), max_depth=3, **kw)
    out = []
    for i in range(count):
        out.append(g.grammar(nvariants=1 if g.r.random() < 0.8 else 2))
    return out


def family_c01(tier, seed):
    L, S, A, F, Sub, Ref, Opt, Many, Cmd = gram.Lit, gram.Seq, gram.Alt, gram.Fb, gram.Sub, gram.Ref, gram.Opt, gram.Many, gram.Cmd
    fams = []
    fams.append(('exhaustive<=%d' % (4 if tier == 'quick' else 5), gram.exhaustive_family(4 if tier == 'quick' else 5)))
    shapes = [
        gram.mk('cmd', F(L('aaa'), Cmd(probe('c1')))),
        gram.mk('cmd', S(Sub(L('--o='), A(L('a'), L('b'))), L('x'))),
        gram.mk('cmd', S(Sub(L('k='), Cmd(probe('c1'))), L('x'))),
        gram.mk('cmd', S(A(Cmd(probe('c1')), Cmd(probe('c2'))), L('x'))),
        gram.mk('cmd', S(Ref('_'), L('x'), Ref('UNDEF'), Opt(L('y')))),
        gram.mk('cmd', S(F(L('foo'), L('--bar'), Cmd(probe('c2'))), L('x'))),
        gram.mk('cmd', S(Sub(L('--o='), F(L('pri'), L('sec'))), L('x'))),
        gram.mk('cmd', S(Ref('N'), Many(A(L('p'), Ref('M')))), [('N', None, A(L('u'), S(L('v'), Ref('M')))), ('M', None, Sub(L('m:'), A(L('1'), L('2'))))]),
        gram.mk('cmd', S(L('a=b'), A(L('c:d'), L('c:e')), L('x'))),
        gram.mk('cmd', S(Sub(L('o:'), A(L('p=1'), L('q=2'))), L('x'))),
        # within-word expressions of the same shape whose literals are split differently over the || levels
        gram.mk('cmd', S(A(Sub(L('--color='), F(L('auto'), A(L('always'), L('never')))),
                           Sub(L('--pager='), F(A(L('auto'), L('always')), L('never')))), L('x'))),
        {'command': 'cmd', 'variants': [Sub(L('--c='), F(L('au'), A(L('al'), L('ne')))), Sub(L('--p='), F(A(L('au'), L('al')), L('ne')))], 'defs': []},
        gram.mk('cmd', S(A(Sub(L('k='), F(L('u'), Cmd(probe('c1')))), Sub(L('m='), F(Cmd(probe('c1')), L('u')))), L('x'))),
        # typed words with two different word-break characters, in both orders
        gram.mk('cmd', S(A(L('d=f:s'), L('d=f:l'), L('u:v=w')), L('x'))),
        gram.mk('cmd', S(Sub(L('r='), A(L('o:m'), L('o:d'))), L('x'))),
        gram.mk('cmd', S(Sub(L('t:'), A(L('a=1'), L('b=2')), Opt(Sub(L(':'), A(L('y'), L('n'))))), L('x'))),
        gram.mk('cmd', S(Ref('X'), L('z')), [('X', 'bash', Cmd(probe('c3'))), ('X', None, Cmd(probe('c4'))), ('X', 'zsh', Cmd(probe('c1')))]),
        gram.mk('cmd', S(L('f', 'descr f'), gram.Descr(A(L('g'), S(L('h'), L('i'))), 'dd'), L('z'))),
    ]
    shapes.extend(shared_definition_shapes())
    shapes.extend(loops_to_start_shapes())
    fams.append(('shapes', shapes))
    scoped, loops = scope_shapes()
    fams.append(('main and within-word tables in one dynamic scope', scoped, 2))
    fams.append(('the same, repeated', loops, 1 if tier == 'quick' else 2))
    fams.append(('random(seed=%d)' % seed, gen_e2(seed, 40 if tier == 'quick' else 400)))
    if tier != 'quick':
        # three complete words before the cursor on the hand-made shapes and the smallest trees
        fams.append(('shapes, K=3', shapes, 3))
        fams.append(('exhaustive<=3, K=3', gram.exhaustive_family(3), 3))
    fams.append(glob_family())
    return fams


def family_c12(tier, seed):
    import itertools
    L, S, A, Sub, Opt = gram.Lit, gram.Seq, gram.Alt, gram.Sub, gram.Opt
    pool = ['a', 'ab', 'abc', 'abcd', 'b', 'ba']
    out = []
    sizes = (2, 3) if tier == 'quick' else (2, 3, 4)
    for n in sizes:
        for vs in itertools.combinations(pool, n):
            if not any(x != y and (x.startswith(y) or y.startswith(x)) for x in vs for y in vs):
                continue
            out.append(gram.mk('cmd', S(Sub(L('--o='), A(*[L(v) for v in vs])), L('x'))))
            if tier != 'quick' or n == 2:
                out.append(gram.mk('cmd', S(Sub(L('p'), A(*[L(v) for v in reversed(vs)])), Opt(L('x')), L('y'))))
    # two alternations in one word: a short value allowed in the first and again in the second next to a longer one
    firsts = [('a', 'b'), ('1', '2')]
    seconds = {('a', 'b'): [('a', 'abc'), ('a', 'ab', 'b'), ('b', 'ba')], ('1', '2'): [('1', '10', '100'), ('2', '21')]}
    for f in firsts:
        for sec in seconds[f][:(2 if tier == 'quick' else 3)]:
            out.append(gram.mk('cmd', S(Sub(L('--r='), A(*[L(v) for v in f]), L(','), A(*[L(v) for v in sec])), A(L('x'), L('y')))))
            out.append(gram.mk('cmd', S(Sub(L('--r='), A(*[L(v) for v in sec]), L(','), A(*[L(v) for v in f])), L('x'))))
    # a prefix chain spread over || levels, the shorter value at the more preferred level
    F = gram.Fb
    for (lv0, lv1) in ((('a', 'ab'), ('abcd',)), (('x86', 'arm'), ('x86_64', 'arm64')), (('1',), ('10', '100'))):
        out.append(gram.mk('cmd', S(Sub(L('--opt='), F(A(*[L(v) for v in lv0]) if len(lv0) > 1 else L(lv0[0]), A(*[L(v) for v in lv1]) if len(lv1) > 1 else L(lv1[0]))), L('x'))))
        out.append(gram.mk('cmd', S(Sub(L('-t'), F(A(*[L(v) for v in lv1]) if len(lv1) > 1 else L(lv1[0]), A(*[L(v) for v in lv0]) if len(lv0) > 1 else L(lv0[0]))), A(L('x'), L('y')))))
    return [('prefix-chain value sets', out), long_candidate_family(PROBES)]


E2_REQUIRED_EVENTS = {
    'C09': ('literal-step', 'fallback-level-used', 'nonempty-reply'),
    'C07': ('literal-step', 'within-word-step', 'nonempty-reply'),
    'C17': ('literal-step', 'within-word-step', 'command-step', 'fallback-level-used', 'nonempty-reply', 'unmatched'),
    'C01': ('literal-step', 'within-word-step', 'command-step', 'any-word-step', 'fallback-level-used',
            'nonempty-reply', 'return-1', 'unmatched'),
    'C12': ('literal-step', 'within-word-step', 'nonempty-reply', 'unmatched'),
}


def run_e2(prop, tier, seed, families, K, configs, allow_regions=(), max_paths=6000, extra=None):
    from . import e2
    rep = Report(prop, tier, seed, 'other')
    common.ensure_built()
    jobs = []
    fam_sizes = {}
    for fam in families:
        name, gs = fam[0], fam[1]
        kk = fam[2] if len(fam) > 2 else K
        fam_sizes[name] = len(gs)
        for g in gs:
            j = {'grammar': g, 'probes': PROBES, 'K': kk, 'configs': configs, 'max_paths': max_paths,
                 'allow_regions': allow_regions, 'cross_every': 97 if len(jobs) % 9 == 0 else 0}
            if extra:
                j.update(extra)
            if len(fam) > 3:
                j.update(fam[3])
            jobs.append(j)
    results = pool_map(e2.analyse, jobs, chunksize=1)
    status = {}
    paths = 0
    queries = {}
    solver_s = 0.0
    validated = 0
    cexs = 0
    events = set()
    sites = set()
    nontrivial = set()
    programs = 0
    samples = []
    regions = {}
    bounds = {}
    over_budget = []
    for r in results:
        status[r['status']] = status.get(r['status'], 0) + 1
        paths += r['paths']
        solver_s += r['solver_s']
        validated += r['validated']
        cexs += r['cex_checked']
        events.update(r.get('events', ()))
        sites.update(r.get('sites', ()))
        for k, v in r['queries'].items():
            queries[k] = queries.get(k, 0) + v
        for reason in r['region']:
            regions[reason] = regions.get(reason, 0) + 1
        if r['status'] == 'budget-exceeded':
            over_budget.append(r['text'])
        if r['status'] == 'ok':
            programs += 1
            if r['nontrivial']:
                nontrivial.add(r['text'])
            if len(samples) < 5 and r['nontrivial']:
                samples.append({'grammar': r['text'], 'paths': r['paths'], 'bounds': r.get('bounds')})
            b = r.get('bounds')
            if b:
                bounds['max_L'] = max(bounds.get('max_L', 0), b['L'])
        for (key, what, payload) in r['violations']:
            rep.violation(key, what, payload)
        for inc in r['inconclusive']:
            rep.inconclusive.append(inc)
    missing = [e for e in E2_REQUIRED_EVENTS.get(prop, ()) if e not in events]
    if missing:
        rep.inconclusive.append('vacuity guard: no path of this run exercised %s' % ', '.join(missing))
    if validated == 0:
        rep.inconclusive.append('interpreter validation did not run')
    rep.coverage = {
        'explanation': 'Symbolic execution (own interpreter, cgv/bashsym.py) of the bash script emitted by the real complgen binary for each '
                       'program, with all complete words and the partially typed word symbolic (bounded byte vectors, QF_BV); per path z3 decides '
                       'whether COMPREPLY can differ from the reference semantics (cgv/refsym.py) for any word values satisfying the path condition; '
                       'every solver counterexample is replayed in the real bash 5.2 and only a reproducing one is reported. A second query per path '
                       'asks whether a difference exists that the listed known deviations do not explain.',
        'evaluations': paths,
        'distinct_nontrivial': len(nontrivial),
        'rule': 'evaluations = symbolic paths explored (each stands for every word assignment satisfying its path condition); a program is '
                'non-trivial if its reference automaton has >= 3 states or a within-word expression; distinct by grammar text',
        'samples': samples or [{'grammar': results[0]['text']}],
        'programs': programs,
        'families': fam_sizes,
        'status_counts': status,
        'excluded_by_region_query': regions,
        'slowest_programs': sorted(((r.get('elapsed_s', 0), r['text']) for r in results), reverse=True)[:5],
        'programs_not_explored_to_the_end_within_budget': over_budget,
        'bounds': {'complete_words_K': '0..%d (families tagged K=3: 0..3)' % K, 'word_length_L': '<= 1 + the longest of: vocabulary items, command candidates, loop-free words of every within-word expression; capped at 12 (max seen %s)' % bounds.get('max_L'),
                   'alphabet': 'characters of the vocabulary and command outputs plus z = : ; the family "typed words containing * and ?" adds * and ? (no [ or backslash in typed words)',
                   'COMP_WORDBREAKS': configs},
        'paths': paths,
        'solver_queries': queries,
        'solver_queries_total': sum(queries.values()),
        'solver_time_s': round(solver_s, 2),
        'counterexamples_replayed_in_real_bash': cexs,
        'interpreter_runs_validated_against_real_bash': validated,
        'vacuity_events_seen': sorted(events),
        'second_solver': {'queries_rechecked_on_cvc5_and_z3_4_8_12': queries.get('cross-cvc5:sat', 0) + queries.get('cross-cvc5:unsat', 0),
                          'note': 'a sample of the per-path result queries is exported as SMT-LIB2 and must get the same verdict'},
        'symbolic_pattern_sites_assumed_glob_free': sorted(sites),
        'functions_encoded': ['emitted _<cmd>', '_<cmd>_subword', '_<cmd>_subword_N', '_<cmd>_subword_shape_N',
                              '_<cmd>_cmd_N', '__complgen_match'],
    }
    rep.assumptions = [
        'bash-completion _get_comp_words_by_ref replaced by the stub words=("${COMP_WORDS[@]}"); cword=$COMP_CWORD (as the property states)',
        'bind -v modelled as completion-ignore-case off',
        'external commands are probes with fixed output (cgvprobe ID "$1" "$2")',
        'sort -nrk2,2 -rk3 and cut -f1 -d" " modelled on concrete data; LC_ALL=C',
        'outside the family "typed words containing * and ?" typed words contain no glob metacharacters; in that family an unquoted use of a typed word as a pattern is followed as the glob it is; [ and backslash never occur in typed symbolic words (they do in the concretely typed vocabulary)',
        'a candidate identical to the text already typed is neither required nor forbidden when it is the only candidate (it changes nothing for the user); next to other candidates it is compared like any other (its absence would let the shell complete past the typed value)',
        'the interpreter is validated against the real bash on the witnesses of sampled paths in every run',
    ]
    return rep


def check_C01(tier, seed):
    from . import e2
    return run_e2('C01', tier, seed, family_c01(tier, seed), K=2, configs=[e2.DEFAULT_WB, ''],
                  extra={} if tier == 'quick' else {'budget_s': 300}, max_paths=6000 if tier == 'quick' else 40000)


def check_C12(tier, seed):
    from . import e2
    rep = run_e2('C12', tier, seed, family_c12(tier, seed), K=2, configs=[e2.DEFAULT_WB],
                 allow_regions=('not-prefix-free-inside-word',), extra={'only_matched': True})
    rep.assumptions.append('only command lines whose complete words are matched by the grammar are considered (fully typed allowed values '
                           'followed by further words; any prefix as the typed word); unmatched words are C01\'s subject')
    return rep


def long_candidate_family(base_probes):
    """command candidates of which one is a prefix of another and the longer one has a two-digit length (the emitted code
    orders candidates by length with sort -n)"""
    L, S, A, Sub, Cmd = gram.Lit, gram.Seq, gram.Alt, gram.Sub, gram.Cmd
    c10 = Cmd(probe('c10'))
    out = [gram.mk('cmd', S(Sub(L('k='), c10), L('x'))),
           gram.mk('cmd', S(Sub(L('k'), c10, L('@'), A(L('o'), L('t'))), L('x')))]
    probes = dict(base_probes, c10='abc\nabcdefghij\n')
    return ('command candidates of length >= 10 next to shorter ones', out, 2, {'probes': probes, 'max_len': 14})


def loops_to_start_shapes():
    """the whole command line is an optional repetition, so the automaton returns to its start state (number 0 after
    renumbering) -- by a literal, by a placeholder (any word), by a command, by a within-word expression"""
    L, S, A, Sub, Ref, Opt, Many, Cmd = gram.Lit, gram.Seq, gram.Alt, gram.Sub, gram.Ref, gram.Opt, gram.Many, gram.Cmd
    return [
        gram.mk('cmd', Many(Opt(A(S(L('--name'), Ref('NAME')), L('--verbose'))))),
        gram.mk('cmd', Many(Opt(A(L('--verbose'), Ref('FILE'))))),
        gram.mk('cmd', Many(Opt(A(S(L('-c'), Cmd(probe('c1'))), L('-v'))))),
        gram.mk('cmd', Many(Opt(A(Sub(L('--o='), A(L('a'), L('b'))), S(L('-n'), Ref('N')))))),
        gram.mk('cmd', Many(Opt(Sub(L('k='), Ref('V'))))),
    ]


def scope_shapes():
    """tables of the main automaton and of several within-word automata live in one dynamic scope: a command / placeholder
    at top level together with within-word expressions that do and do not contain one"""
    L, S, A, Sub, Ref, Opt, Many, Cmd = gram.Lit, gram.Seq, gram.Alt, gram.Sub, gram.Ref, gram.Opt, gram.Many, gram.Cmd
    out = []
    loops = []
    top_c, top_any = Cmd(probe('c1')), Ref('ANY')
    w_plain = Sub(L('m='), A(L('f'), L('s')))
    w_plain2 = Sub(L('p'), Opt(L('q')))
    w_cmd = Sub(L('n='), Cmd(probe('c2')))
    w_any = Sub(L('u='), Ref('ANY'))
    for top in (top_c, top_any):
        for ws in ((w_plain, w_cmd), (w_plain, w_any), (w_plain2, w_cmd), (w_plain, w_cmd, w_any)):
            out.append(gram.mk('cmd', S(top, A(*ws), L('end'))))
            out.append(gram.mk('cmd', S(A(*ws), top, L('end'))))
            (loops if top is top_c else out).append(gram.mk('cmd', S(Many(A(*(ws + (top,)))), L('end'))) if top is top_c
                                                     else gram.mk('cmd', S(A(*ws), Opt(top))))
    return out, loops


def shared_definition_shapes():
    """one definition referenced from several places that differ in || level or in being inside a word: the body is one
    shared subtree in the compiler, the references are distinct occurrences in the grammar"""
    L, S, A, F, Sub, Ref, Opt, Cmd = gram.Lit, gram.Seq, gram.Alt, gram.Fb, gram.Sub, gram.Ref, gram.Opt, gram.Cmd
    out = []
    for body in (Cmd(probe('c1')), A(L('v'), Cmd(probe('c2'))), Sub(L('k='), Cmd(probe('c1')))):
        X = [('X', None, body)]
        out.append(gram.mk('cmd', A(F(L('z'), Ref('X')), S(L('q'), Ref('X'))), X))
        out.append(gram.mk('cmd', F(S(L('a'), A(Ref('X'), L('b'))), Ref('X')), X))
        out.append(gram.mk('cmd', S(F(Ref('X'), L('z')), F(L('y'), Ref('X')), L('end')), X))
    X = [('X', None, Cmd(probe('c1')))]
    out.append(gram.mk('cmd', A(F(L('a'), Ref('X')), Sub(L('--foo='), Ref('X'))), X))
    out.append(gram.mk('cmd', A(F(L('a'), Ref('Y')), S(L('q'), Ref('Y'))), [('Y', None, A(Ref('X'), L('w'))), ('X', 'bash', Cmd(probe('c1'))), ('X', None, Cmd(probe('c2')))]))
    out.append(gram.mk('cmd', A(F(L('a'), L('b'), Ref('X')), S(L('q'), F(L('r'), Ref('X')))), X))
    return out


PROBES_C17 = {'c1': 'bbb\nccc\n', 'c2': 'dd\n', 'c5': 'foo bar\tdescr one\nbaz\tdescr\n', 'c6': 'x y\n', 'c7': 'k1\tonly descr\n',
              # backslashes, glob characters, a tab right after a backslash, trailing blanks before the tab
              'c8': 'a\\b\tdescr\n*x\nq\\\tr\nw \tv\nm\tfirst\tsecond\n',
              # candidates that look like options of a shell built-in
              'c9': '-n\n-e\tdescr\n-x\n'}


def family_c17(tier, seed):
    L, S, A, F, Sub, Ref, Opt, Many, Cmd = gram.Lit, gram.Seq, gram.Alt, gram.Fb, gram.Sub, gram.Ref, gram.Opt, gram.Many, gram.Cmd
    out = []
    for pid in ('c1', 'c5', 'c6'):
        c = Cmd(probe(pid))
        out.append(gram.mk('cmd', S(c, L('x'))))                          # top level
        out.append(gram.mk('cmd', S(L('a'), Opt(c), L('x'))))             # under []
        out.append(gram.mk('cmd', S(Many(c), L('x'))))                    # under ...
        out.append(gram.mk('cmd', S(A(L('lit'), c), L('x'))))             # under |
        out.append(gram.mk('cmd', S(F(L('lit'), c), L('x'))))             # under ||, later branch
        out.append(gram.mk('cmd', S(F(c, L('lit')), L('x'))))             # under ||, first branch
        out.append(gram.mk('cmd', S(Sub(L('k='), c), L('x'))))            # inside a word after a literal prefix
        out.append(gram.mk('cmd', S(Sub(L('k='), A(L('v'), c)), L('x'))))
        out.append(gram.mk('cmd', S(Ref('N'), L('x')), [('N', None, c)]))  # through a definition
        out.append(gram.mk('cmd', S(Ref('N'), L('x')), [('N', 'bash', c), ('N', None, Cmd(probe('c2'))), ('N', 'fish', Cmd(probe('c7')))]))
        out.append(gram.mk('cmd', S(Sub(L('o='), Ref('N')), L('x')), [('N', 'bash', c)]))
        out.append(gram.mk('cmd', S(Ref('W'), L('x')), [('W', None, A(S(L('y'), Ref('N')), L('w'))), ('N', None, c)]))
    out.append(gram.mk('cmd', S(A(Cmd(probe('c1')), Cmd(probe('c2'))), L('x'))))
    out.append(gram.mk('cmd', S(Cmd(probe('c1')), Cmd(probe('c2')), L('x'))))
    scoped, loops = scope_shapes()
    out.extend(scoped)
    out.extend(shared_definition_shapes())
    out.append(gram.mk('cmd', S(L('a'), Ref('U'), Cmd(probe('c2')))))
    out.extend(gen_e2(seed + 17, 20 if tier == 'quick' else 200, allow_descr=False))
    # the repeated mixtures have many paths: one complete word in the quick tier, two in the thorough one
    c8 = Cmd(probe('c8'))
    c9 = Cmd(probe('c9'))
    special = [gram.mk('cmd', S(c8, L('x'))), gram.mk('cmd', S(Sub(L('k='), c8), L('x'))), gram.mk('cmd', S(F(L('lit'), c8), Opt(c8))),
               gram.mk('cmd', S(c9, L('x'))), gram.mk('cmd', S(Sub(L('k='), c9), L('x'))), gram.mk('cmd', S(F(L('lit'), c9), Opt(c9)))]
    return [('commands at every syntactic position', out), ('repeated mixtures of commands and within-word items', loops, 1 if tier == 'quick' else 2),
            ('command output with backslashes, glob characters and blanks', special, 2, {'concrete_vocab_cases': True}),
            long_candidate_family(dict(PROBES, **PROBES_C17)), glob_family()]


def check_C17(tier, seed):
    from . import e2
    global PROBES
    saved = PROBES
    PROBES = dict(PROBES, **PROBES_C17)
    try:
        rep = run_e2('C17', tier, seed, family_c17(tier, seed), K=2, configs=[e2.DEFAULT_WB],
                     extra={'check_log': True, 'extra_alphabet': 'z= '})
    finally:
        PROBES = saved
    return rep


SPECIAL_LITERALS = ['a"b', 'a\\', 'a\\b', 'a$b', '$a', 'a`b', 'a!b', 'a*', '*', 'a?c', '~a', 'a#b', 'a&b', '[ab]', 'a[', '{a}', '(a)', '<a>',
                    'a|b', 'a;b', 'a.b', "a'b", '"', '\\\\', '$(a)', '`a`', 'a\\$b', 'a"$`\\', '--x=*', 'a**', '?']


def family_c07(tier, seed):
    L, S, A, Sub, Opt = gram.Lit, gram.Seq, gram.Alt, gram.Sub, gram.Opt
    out = []
    lits = SPECIAL_LITERALS
    step = 3
    for i in range(0, len(lits), step):
        chunk = lits[i:i + step]
        out.append(gram.mk('cmd', S(A(*[L(x) for x in chunk]), L('end'))))                       # top level
    for i in range(0, len(lits) - 1, 2):
        chunk = lits[i:i + 2]
        # inside a word after a plain prefix (kept prefix-free by construction: distinct first characters are not guaranteed,
        # the region query filters the rest)
        out.append(gram.mk('cmd', S(Sub(L('o='), A(*[L(x) for x in chunk])), L('end'))))
    out.append(gram.mk('cmd', S(L('a*', 'descr "quoted" $x `y` \\'), L('end', "it's"))))
    return [('special-character vocabulary', out), glob_family()]


def glob_family():
    """typed words over an alphabet with * and ?: wherever the script used a typed word as an unquoted pattern, the
    interpreter would follow the glob (cgv/bashsym.py unquoted_tokens)"""
    L, S, A, Sub, Opt, Cmd, Many = gram.Lit, gram.Seq, gram.Alt, gram.Sub, gram.Opt, gram.Cmd, gram.Many
    c1 = Cmd(probe('c1'))
    out = [gram.mk('cmd', S(A(L('ab'), L('a*')), L('end'))),
           gram.mk('cmd', S(Sub(L('o='), A(L('ab'), L('cd'))), L('end'))),
           gram.mk('cmd', S(Sub(L('o='), c1), L('end'))),
           gram.mk('cmd', S(A(c1, L('x*y')), Opt(L('end')))),
           gram.mk('cmd', S(A(L('a:*b'), L('a:?c')), L('end'))),
           gram.mk('cmd', S(Sub(L('k='), A(L('*x'), L('?y'))), L('end'))),
           gram.mk('cmd', S(Many(A(L('a?'), L('ab'))), L('end'))),
           gram.mk('cmd', S(Sub(L('p'), A(L('?'), L('q')), L('b')), Opt(c1)))]
    return ('typed words containing * and ?', out, 2, {'glob_words': True, 'concrete_vocab_cases': True})


def check_C07(tier, seed):
    """E1 (MIR -> SMT) for the four escapers + E2/real bash on the special-character vocabulary."""
    from . import e1, e2, mirsym, autosmt, quoting
    common.ensure_built()
    t0 = time.time()
    stats = autosmt.Stats()
    N = 8 if tier == 'quick' else 12
    mir = mirsym.dump_mir()
    cgvp = common.Cgv()
    shells = ('bash', 'fish', 'zsh', 'pwsh')
    e1_rows = []
    e1_viol = []
    e1_inconclusive = []
    models = set()
    nvalid = 0
    for sh in shells:
        try:
            text_sh = mirsym.function_text(mir, '%s::make_string_constant' % sh)
            nvalid += e1.validate_translator(cgvp, {sh: text_sh}, seed)
            for n in range(1, N + 1) if tier != 'quick' else (N,):
                holds, cex, ms, ncells = e1.solve_kernel(text_sh, sh, n, stats)
                models |= set(ms)
                e1_rows.append({'function': '%s::make_string_constant' % sh, 'max_bytes': n, 'holds': holds, 'cells': ncells,
                                'counterexample': cex})
                if not holds:
                    const = cgvp.strconst(cex)[sh]
                    why = e1.violates(sh, cex, const)
                    if why is None:
                        raise Inconclusive('E1 counterexample %r for %s does not reproduce on the real function (constant %r)' % (cex, sh, const))
                    small = e1.minimise(cgvp, sh, sh, cex)
                    const = cgvp.strconst(small)[sh]
                    why = e1.violates(sh, small, const)
                    payload = {'shell': sh, 'string': small, 'constant': const, 'why': why, 'solver_string': cex}
                    if sh == 'bash':
                        rc, out, err = e1.bash_eval(const)
                        payload['bash_eval'] = {'rc': rc, 'stdout': out.decode(errors='replace'), 'stderr': err}
                        if rc == 0 and out == small.encode():
                            raise Inconclusive('reader model for bash disagrees with the real bash on %r' % const)
                    e1_viol.append(('%s:%s:%s' % (sh, why, ''.join(sorted(set(c for c in small if not c.isalnum())))),
                                    '%s::make_string_constant(%r) = %s which the %s reader sees as %s' % (sh, small, const, sh, why), payload))
                    break
        except Inconclusive as e:
            # the kernel has a shape the MIR interpreter does not know (or drifted): no E1 verdict for this shell --
            # reported as inconclusive, but the bash half below still runs and may find a violation by execution
            e1_inconclusive.append('E1 %s::make_string_constant: %s' % (sh, e))
            e1_rows.append({'function': '%s::make_string_constant' % sh, 'holds': None, 'inconclusive': str(e)})
    cgvp.close()
    # bash half by execution
    rep = run_e2('C07', tier, seed, family_c07(tier, seed), K=1, configs=[e2.DEFAULT_WB],
                 extra={'concrete_vocab_cases': True, 'extra_alphabet': 'z='})
    # script level, all four shells: the data statements emitted for the special-character vocabulary (as literals and as
    # descriptions), read back with each shell's quoting rules (cgv/decoders.py), describe the grammar -- the machinery of C04
    from . import e4
    sl_programs = list(family_c07(tier, seed)[0][1])
    descrs = SPECIAL_LITERALS + ["it's", 'say "hi"', 'tab\there', '100%', '$(rm -rf x)', '`id`', '${HOME}', '!!', 'a\\"b', '@{x}', "$'x'"]
    for i in range(0, len(descrs), 3):
        sl_programs.append(gram.mk('cmd', gram.Seq(gram.Alt(*[gram.Lit('l%d' % k, d) for k, d in enumerate(descrs[i:i + 3])]), gram.Lit('end'))))
    sl = pool_map(e4.analyse, [(g, shells) for g in sl_programs])
    sl_rows = {}
    sl_viol = []
    for r in sl:
        for row in r['rows']:
            sl_rows[row['status']] = sl_rows.get(row['status'], 0) + 1
        for (_, key, what, payload) in r['violations']:
            sl_viol.append(('script-data:%s' % key, what, payload))
        for inc in r['inconclusive']:
            if 'is not inert' in inc or 'unterminated' in inc:
                # the reader of that shell sees a live expansion / an unterminated string in a data statement
                sl_viol.append(('script-constant-not-inert', inc, {'grammar': r['text']}))
            else:
                e1_inconclusive.append('script level: %s' % inc)
    other = set(e2.KNOWN_DEVS)
    kept = [(k, w, p) for (k, w, p) in rep.violations if not set(k.split('+')) <= other]
    rep.coverage['differences_attributed_to_other_properties_known_deviations'] = len(rep.violations) - len(kept)
    rep.violations = kept
    for (k, w, p) in e1_viol:
        rep.violation(k, w, p)
    for (k, w, p) in sl_viol:
        rep.violation(k, w, p)
    rep.coverage['script_level'] = {'programs': len(sl_programs), 'shells': list(shells), 'rows_by_status': sl_rows,
                                    'what': 'literal and description constants of the emitted scripts decoded with the shell\'s quoting rules and compared with the grammar (automaton equivalence incl. literal text and description)'}
    rep.inconclusive += e1_inconclusive
    rep.coverage['e1'] = {
        'functions_encoded': ['%s::make_string_constant' % sh for sh in shells],
        'bound': 'all ASCII strings (bytes 1..127) of up to %d bytes' % N,
        'rows': e1_rows,
        'library_models': sorted(models),
        'translator_validation_strings': nvalid,
        'reader_models': 'cgv/quoting.py (bash, zsh, fish, pwsh double-quote rules from the manuals)',
    }
    for k, v in stats.queries.items():
        rep.coverage['solver_queries'][k] = rep.coverage['solver_queries'].get(k, 0) + v
    rep.coverage['solver_queries_total'] = sum(rep.coverage['solver_queries'].values())
    rep.coverage['solver_time_s'] = round(rep.coverage['solver_time_s'] + stats.solver_s, 2)
    rep.coverage['explanation'] = ('E1: the MIR of the four make_string_constant functions (regenerated from /repo) is interpreted over guarded symbolic '
                                   'byte cells and z3 decides, for all ASCII strings up to the stated length, that each shell\'s double-quote reader '
                                   'reads the constant back as the input, well terminated and without a live expansion. E2 half: ' + rep.coverage['explanation'])
    rep.assumptions += ['non-ASCII text is outside the E1 bound (the escapers replace ASCII characters only)',
                        'history expansion (!) is off in a sourced non-interactive bash/zsh script',
                        'which characters can reach a constant is taken from the documented lexer, which is not verified (C05 n/a)',
                        'words typed by the user contain no [ or backslash in the symbolic part (and * and ? only in the family "typed words '
                        'containing * and ?"); literals made of such characters are additionally exercised as themselves (concretely) in the real bash']
    rep.t0 = t0
    return rep


CHECKS = {
    'C16': check_C16,
    'C04': check_C04,
    'C07': check_C07,
    'C17': check_C17,
    'C01': check_C01,
    'C12': check_C12,
    'C09': check_C09,
    'C02': check_C02,
    'C03': check_C03,
    'C11': check_C11,
}


def main(argv):
    if len(argv) < 2 or argv[1] not in CHECKS:
        sys.stderr.write('usage: python3-vt -m cgv.check <%s> [--tier quick|thorough]\n' % '|'.join(sorted(CHECKS)))
        return 2
    prop = argv[1]
    tier, seed = common.tier_and_seed(argv)
    try:
        rep = CHECKS[prop](tier, seed)
    except Inconclusive as e:
        print('INCONCLUSIVE: %s' % e)
        rep = Report(prop, tier, seed, 'other')
        rep.inconclusive.append(str(e))
        rep.coverage = {'explanation': 'run aborted: %s' % e, 'evaluations': 1, 'distinct_nontrivial': 0}
        rep.finish()
        return common.EXIT_INCONCLUSIVE
    return rep.finish()


if __name__ == '__main__':
    sys.exit(main(sys.argv))
