"""Symbolic strings over bounded byte vectors (QF_BV) and the path-exploration engine used by E2.

A symbolic word W has L byte variables (8-bit bit-vectors) and a length n in [0, L] (bit-vector).
A string value (SymStr) is a tuple of parts: Python str (concrete) or Slice(W, start, stop) with
concrete offsets (stop None = to the end). Every relation between strings (equality, prefix, glob
match of a concrete pattern) is built by case split over the lengths of the words involved; inside a
case every position is a concrete index, so the formula is a conjunction of byte equalities.

The engine runs a deterministic program (the bash interpreter on the emitted script, followed by
the reference semantics) once per path; at a symbolic condition it asks the solver which sides are
feasible under the current path condition, follows one and queues the other (DART-style
re-execution from a recorded decision prefix).
"""
import itertools
import time

import z3

from .errors import Inconclusive


class Word:
    """A symbolic word: bytes b[0..L-1], length n."""

    def __init__(self, name, L, alphabet):
        self.name = name
        self.L = L
        self.alphabet = alphabet            # string of allowed characters
        self.lenbits = max(1, L.bit_length())
        self.n = z3.BitVec('%s_n' % name, self.lenbits + 1)
        self.b = [z3.BitVec('%s_b%d' % (name, i), 8) for i in range(L)]

    def constraints(self):
        cs = [z3.ULE(self.n, z3.BitVecVal(self.L, self.lenbits + 1))]
        for i, b in enumerate(self.b):
            inside = z3.UGT(self.n, z3.BitVecVal(i, self.lenbits + 1))
            cs.append(z3.If(inside, z3.Or([b == ord(c) for c in self.alphabet]), b == 0))
        return cs

    def len_is(self, v):
        return self.n == z3.BitVecVal(v, self.lenbits + 1)

    def __repr__(self):
        return '<%s>' % self.name


class Slice:
    __slots__ = ('w', 'start', 'stop')

    def __init__(self, w, start=0, stop=None):
        self.w, self.start, self.stop = w, start, stop

    def length(self, n):
        end = n if self.stop is None else min(self.stop, n)
        return max(0, end - self.start)

    def key(self):
        return (self.w.name, self.start, self.stop)

    def __repr__(self):
        return '%s[%d:%s]' % (self.w.name, self.start, '' if self.stop is None else self.stop)


class SymStr:
    """Immutable string value with at least one symbolic part."""
    __slots__ = ('parts',)

    def __init__(self, parts):
        self.parts = tuple(parts)

    def words(self):
        seen = []
        for p in self.parts:
            if isinstance(p, Slice) and p.w not in seen:
                seen.append(p.w)
        return seen

    def expand(self, assign):
        """-> list of char terms under a length assignment {Word: n}: str (1 char) or (Word, i)."""
        out = []
        for p in self.parts:
            if isinstance(p, str):
                out.extend(p)
            else:
                n = assign[p.w]
                end = n if p.stop is None else min(p.stop, n)
                for i in range(p.start, max(p.start, end)):
                    out.append((p.w, i))
        return out

    def key(self):
        return tuple(p if isinstance(p, str) else p.key() for p in self.parts)

    def __repr__(self):
        return 'S(' + '+'.join(repr(p) for p in self.parts) + ')'


def mk(parts):
    """Normalise: merge adjacent concrete parts, drop empties, return str if fully concrete."""
    out = []
    for p in parts:
        if isinstance(p, SymStr):
            ps = p.parts
        else:
            ps = (p,)
        for q in ps:
            if isinstance(q, str):
                if not q:
                    continue
                if out and isinstance(out[-1], str):
                    out[-1] = out[-1] + q
                else:
                    out.append(q)
            else:
                if q.stop is not None and q.stop <= q.start:
                    continue
                # merge W[a:b] + W[b:c]
                if out and isinstance(out[-1], Slice) and out[-1].w is q.w and out[-1].stop == q.start:
                    out[-1] = Slice(q.w, out[-1].start, q.stop)
                else:
                    out.append(q)
    if all(isinstance(p, str) for p in out):
        return ''.join(out)
    return SymStr(out)


def concat(*xs):
    return mk(xs)


def is_sym(x):
    return isinstance(x, SymStr)


def words_of(*xs):
    ws = []
    for x in xs:
        if isinstance(x, SymStr):
            for w in x.words():
                if w not in ws:
                    ws.append(w)
    return ws


def expand(x, assign):
    if isinstance(x, str):
        return list(x)
    return x.expand(assign)


def char_eq(a, b):
    """Equality of two char terms -> Python bool or z3 Bool."""
    if isinstance(a, str) and isinstance(b, str):
        return a == b
    if isinstance(a, str):
        a, b = b, a
    w, i = a
    if isinstance(b, str):
        if b not in w.alphabet:
            return False
        return w.b[i] == ord(b)
    w2, j = b
    if w is w2 and i == j:
        return True
    return w.b[i] == w2.b[j]


def conj(xs):
    out = []
    for x in xs:
        if x is True:
            continue
        if x is False:
            return False
        out.append(x)
    if not out:
        return True
    return z3.And(out) if len(out) > 1 else out[0]


def disj(xs):
    out = []
    for x in xs:
        if x is False:
            continue
        if x is True:
            return True
        out.append(x)
    if not out:
        return False
    return z3.Or(out) if len(out) > 1 else out[0]


def neg(x):
    if x is True:
        return False
    if x is False:
        return True
    return z3.Not(x)


def over_lengths(ws, fn):
    """OR over all length assignments of the words ws of (lengths == assignment AND fn(assignment))."""
    if not ws:
        return fn({})
    cases = []
    for combo in itertools.product(*[range(w.L + 1) for w in ws]):
        assign = dict(zip(ws, combo))
        f = fn(assign)
        if f is False:
            continue
        cases.append(conj([w.len_is(v) for w, v in assign.items()] + [f]))
    return disj(cases)


def seq_eq(xs, ys):
    if len(xs) != len(ys):
        return False
    return conj([char_eq(a, b) for a, b in zip(xs, ys)])


def seq_prefix(pre, full):
    """pre is a prefix of full"""
    if len(pre) > len(full):
        return False
    return conj([char_eq(a, b) for a, b in zip(pre, full)])


# formulas are rebuilt on every path (the program is re-executed); the words live as long as the
# engine, so relation formulas are memoised per pair of string shapes
_memo = {}


def _key(x):
    return x if isinstance(x, str) else ('S',) + tuple(p if isinstance(p, str) else (id(p.w), p.start, p.stop) for p in x.parts)


def _memoised(op, a, b, build):
    k = (op, _key(a), _key(b))
    r = _memo.get(k)
    if r is None:
        r = build()
        if r is not True and r is not False:
            r = z3.simplify(r)
            if z3.is_true(r):
                r = True
            elif z3.is_false(r):
                r = False
        if len(_memo) > 200000:
            _memo.clear()
        _memo[k] = (r, a, b)     # keep the operands alive: ids of words are part of the key
        return r
    return r[0]


def eq(a, b):
    if isinstance(a, str) and isinstance(b, str):
        return a == b
    ws = words_of(a, b)
    return _memoised('eq', a, b, lambda: over_lengths(ws, lambda asg: seq_eq(expand(a, asg), expand(b, asg))))


def startswith(full, pre):
    if isinstance(full, str) and isinstance(pre, str):
        return full.startswith(pre)
    ws = words_of(full, pre)
    return _memoised('sw', full, pre, lambda: over_lengths(ws, lambda asg: seq_prefix(expand(pre, asg), expand(full, asg))))


def is_empty(a):
    if isinstance(a, str):
        return a == ''
    ws = words_of(a)
    return _memoised('empty', a, '', lambda: over_lengths(ws, lambda asg: len(expand(a, asg)) == 0))


def length_cmp(a, b, op):
    """compare len(a) op len(b); a, b strings or ints"""
    def ln(x, asg):
        if isinstance(x, int):
            return x
        return len(expand(x, asg))
    ws = words_of(*[x for x in (a, b) if not isinstance(x, int)])
    return over_lengths(ws, lambda asg: op(ln(a, asg), ln(b, asg)))


# ---------------------------------------------------------------------------------------------
# glob matching of a *concrete* pattern against a (possibly symbolic) subject

def parse_glob(pat):
    """bash pattern (extglob off) -> list of tokens: ('c', ch) | ('any1',) | ('star',) | ('set', negate, items)"""
    toks = []
    i = 0
    while i < len(pat):
        c = pat[i]
        if c == '\\':
            if i + 1 < len(pat):
                toks.append(('c', pat[i + 1]))
                i += 2
            else:
                toks.append(('c', '\\'))
                i += 1
        elif c == '*':
            if not (toks and toks[-1] == ('star',)):
                toks.append(('star',))
            i += 1
        elif c == '?':
            toks.append(('any1',))
            i += 1
        elif c == '[':
            j = i + 1
            negate = False
            if j < len(pat) and pat[j] in '!^':
                negate = True
                j += 1
            items = []
            first = True
            ok = False
            while j < len(pat):
                if pat[j] == ']' and not first:
                    ok = True
                    break
                first = False
                if pat[j] == '\\' and j + 1 < len(pat):
                    items.append(pat[j + 1])
                    j += 2
                    continue
                if j + 2 < len(pat) and pat[j + 1] == '-' and pat[j + 2] != ']':
                    items.append((pat[j], pat[j + 2]))
                    j += 3
                    continue
                items.append(pat[j])
                j += 1
            if ok:
                toks.append(('set', negate, tuple(items)))
                i = j + 1
            else:
                toks.append(('c', '['))
                i += 1
        else:
            toks.append(('c', c))
            i += 1
    return toks


def tok_match(tok, ch):
    if tok[0] == 'c':
        return char_eq(tok[1], ch)
    if tok[0] == 'any1':
        return True
    if tok[0] == 'set':
        alts = []
        for it in tok[2]:
            if isinstance(it, tuple):
                if isinstance(ch, str):
                    alts.append(it[0] <= ch <= it[1])
                else:
                    w, i = ch
                    alts.append(conj([z3.UGE(w.b[i], ord(it[0])), z3.ULE(w.b[i], ord(it[1]))]))
            else:
                alts.append(char_eq(it, ch))
        r = disj(alts)
        return neg(r) if tok[1] else r
    raise ValueError(tok)


def glob_match_seq(toks, chars):
    """DP: does the token list match exactly the char list -> bool/z3"""
    n, m = len(toks), len(chars)
    # dp[i][j]: toks[i:] matches chars[j:]
    dp = [[False] * (m + 1) for _ in range(n + 1)]
    dp[n][m] = True
    for i in range(n - 1, -1, -1):
        for j in range(m, -1, -1):
            t = toks[i]
            if t[0] == 'star':
                dp[i][j] = disj([dp[i + 1][k] for k in range(j, m + 1)])
            elif j < m:
                dp[i][j] = conj([tok_match(t, chars[j]), dp[i + 1][j + 1]])
            else:
                dp[i][j] = False
    return dp[0][0]


def glob_match(pattern_toks, subject):
    ws = words_of(subject)
    return _memoised(('glob', tuple(pattern_toks)), subject, '',
                     lambda: over_lengths(ws, lambda asg: glob_match_seq(pattern_toks, expand(subject, asg))))


# ---------------------------------------------------------------------------------------------
# engine

class PathLimit(Exception):
    pass


class Engine:
    def __init__(self, max_paths=20000, timeout_ms=10000, deadline=None):
        self.deadline = deadline
        self.solver = z3.Solver()
        # no per-query timeout: z3 starts a timer thread per check() when one is set, which dominates the cost of
        # thousands of tiny queries; the program budget (deadline) bounds the run instead
        self.timeout_ms = timeout_ms
        self.max_paths = max_paths
        self.queries = {}
        self.solver_s = 0.0
        self.base = []
        self.paths = 0

    def note(self, kind, verdict, dt):
        k = '%s:%s' % (kind, verdict)
        self.queries[k] = self.queries.get(k, 0) + 1
        self.solver_s += dt

    def check(self, extra, kind):
        t0 = time.time()
        r = self.solver.check(*extra)
        dt = time.time() - t0
        self.note(kind, str(r), dt)
        if r == z3.unknown:
            raise Inconclusive('solver unknown (%s) in %s' % (self.solver.reason_unknown(), kind))
        if self.cross_every and kind in ('result-differs', 'unexplained-by-known', 'invocations-differ'):
            self.cross_seen += 1
            if self.cross_seen % self.cross_every == 1:
                self.cross_check(extra, r == z3.sat)
        return r == z3.sat

    cross_every = 0
    cross_seen = 0
    cross_done = 0

    def cross_check(self, extra, mine):
        """the same query (path condition + negated result equality) as SMT-LIB2 on cvc5 and z3 4.8.12"""
        import subprocess
        s2 = z3.Solver()
        for a in self.solver.assertions():
            s2.add(a)
        for e in extra:
            s2.add(e)
        text = '(set-logic ALL)\n' + s2.sexpr() + '\n(check-sat)\n'
        for cmd in (['cvc5', '--lang', 'smt2'], ['/usr/bin/z3', '-in']):
            try:
                p = subprocess.run(cmd, input=text, stdout=subprocess.PIPE, stderr=subprocess.STDOUT, text=True, timeout=120)
            except subprocess.TimeoutExpired:
                # not an answer, hence not a disagreement: counted, reported in the evidence
                self.note('cross-' + cmd[0].split('/')[-1], 'timeout', 120.0)
                continue
            out = p.stdout.strip().split('\n')[-1] if p.stdout.strip() else ''
            if '(error' in p.stdout or out not in ('sat', 'unsat'):
                raise Inconclusive('second solver %s: %r' % (cmd[0], p.stdout[:200]))
            if (out == 'sat') != mine:
                raise Inconclusive('solvers disagree on a path query: z3 %s, %s %s' % ('sat' if mine else 'unsat', cmd[0], out))
            self.note('cross-' + cmd[0].split('/')[-1], out, 0.0)
        self.cross_done += 1

    def explore(self, program, base_constraints):
        """program(engine) is run once per path; it calls decide(). Yields whatever program returns,
        with the engine's solver holding the path condition (so the caller may query it)."""
        self.solver.push()
        for c in base_constraints:
            self.solver.add(c)
        work = [[]]
        try:
            while work:
                prefix = work.pop()
                self.paths += 1
                if self.paths > self.max_paths:
                    raise PathLimit('more than %d paths' % self.max_paths)
                if self.deadline is not None and time.time() > self.deadline:
                    raise PathLimit('time budget for this program used up after %d paths' % self.paths)
                self.trace = list(prefix)
                self.pos = 0
                self.known = {}
                self.work = work
                self.pc = []
                self.solver.push()
                try:
                    result = program(self)
                    yield result
                finally:
                    self.solver.pop()
        finally:
            self.solver.pop()

    def decide(self, cond):
        if cond is True or cond is False:
            return cond
        cond = z3.simplify(cond)
        if z3.is_true(cond):
            return True
        if z3.is_false(cond):
            return False
        cid = cond.get_id()
        if cid in self.known:
            return self.known[cid]
        if self.pos < len(self.trace):
            b = self.trace[self.pos]
            self.pos += 1
        else:
            can_t = self.check([cond], 'branch')
            can_f = self.check([z3.Not(cond)], 'branch') if can_t else True
            if can_t and can_f:
                self.work.append(self.trace + [False])
                b = True
            else:
                b = can_t
            self.trace.append(b)
            self.pos += 1
        c = cond if b else z3.Not(cond)
        self.solver.add(c)
        self.pc.append(c)
        self.known[cid] = b
        return b

    def model(self):
        return self.solver.model()


def model_word(m, w):
    n = m.eval(w.n, model_completion=True).as_long()
    return ''.join(chr(m.eval(w.b[i], model_completion=True).as_long()) for i in range(min(n, w.L)))
