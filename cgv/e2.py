"""E2 driver: symbolic execution of the emitted bash script against the reference semantics, with
replay of every counterexample in the real bash."""
import itertools
import os
import random
import time

import z3

from . import gram, ref, sym, bashsym, bashreal, refsym, common, autosmt
from .bashparse import parse, Unsupported
from .errors import Inconclusive
from .sym import Word, SymStr, Slice

DEFAULT_WB = " \t\n\"'><=;|&(:"


def probe_cmd(pid):
    return 'cgvprobe %s "$1" "$2"' % pid


def candidates_of(text):
    lines = text.split('\n')
    if lines and lines[-1] == '':
        lines.pop()
    return [refsym.first_field(l) for l in lines]


def cmd_candidate_table(g, probes):
    """command text -> candidates, for every {{{ }}} command of the grammar (probe commands only)"""
    table = {}
    for e in list(g['variants']) + [d[2] for d in g['defs']]:
        for n in gram.walk(e):
            if n[0] == 'cmd':
                t = n[1].strip()
                if t.startswith('cgvprobe '):
                    pid = t.split()[1]
                    table[t] = candidates_of(probes[pid])
                else:
                    raise Inconclusive('command %r is not a probe; its output is not known' % t)
    return table


def longest_word(resolver, table):
    """length of the longest word a within-word expression spells without repeating a state"""
    best = 0
    for m in resolver.sub_autos:
        def dfs(q, seen, acc):
            nonlocal best
            best = max(best, acc)
            for key, t in m.trans[q].items():
                if t in seen:
                    continue
                if key[0] == 'lit':
                    ln = len(key[1])
                elif key[0] == 'cmd':
                    ln = max([len(c) for c in table.get(key[1], [])] + [0])
                else:
                    ln = 1
                dfs(t, seen | {t}, acc + ln)
        dfs(m.start, {m.start}, 0)
    return best


def vocabulary(g, probes):
    v = set()
    for e in list(g['variants']) + [d[2] for d in g['defs']]:
        for n in gram.walk(e):
            if n[0] == 'lit':
                v.add(n[1])
    for t in probes.values():
        for c in candidates_of(t):
            v.add(c)
    return v


# ---------------------------------------------------------------------------------------------
# region split: which grammars does C01 speak about (decided by queries, not by syntax)

def sub_regex(resolver, cid, table):
    """z3 regex of within-word class cid with commands replaced by their known candidates"""
    def conv(r):
        k = r[0]
        if k == 'eps':
            return z3.Re(z3.StringVal(''))
        if k == 'empty':
            return z3.Empty(z3.ReSort(z3.StringSort()))
        if k == 'item':
            key = r[1]
            if key[0] == 'lit':
                return z3.Re(z3.StringVal(key[1]))
            if key[0] == 'cmd':
                cs = table.get(key[1], [])
                if not cs:
                    return z3.Empty(z3.ReSort(z3.StringSort()))
                out = z3.Re(z3.StringVal(cs[0]))
                for c in cs[1:]:
                    out = z3.Union(out, z3.Re(z3.StringVal(c)))
                return out
            if key[0] == 'any':
                return z3.Full(z3.ReSort(z3.StringSort()))
        if k == 'cat':
            return z3.Concat(conv(r[1]), conv(r[2]))
        if k == 'alt':
            ps = [conv(x) for x in r[1]]
            out = ps[0]
            for p in ps[1:]:
                out = z3.Union(out, p)
            return out
        if k == 'star':
            return z3.Star(conv(r[1]))
        raise KeyError(k)
    return conv(resolver.sub_exprs[cid])


def region(resolver, R0, table, stats):
    """-> set of reasons why the grammar is outside C01's region (empty = inside)"""
    reasons = set()
    # unique tokenisation inside every word expression
    for m in resolver.sub_autos:
        for row in m.trans:
            chunks = []
            for key, t in row.items():
                if key[0] == 'lit':
                    chunks.append((key[1], t))
                elif key[0] == 'cmd':
                    for c in table.get(key[1], []):
                        chunks.append((c, t))
                elif key[0] == 'any' and len(row) > 1:
                    reasons.add('placeholder-overlaps-inside-word')
            for (a, ta), (b, tb) in itertools.combinations(chunks, 2):
                if a == b and ta == tb:
                    continue
                if a.startswith(b) or b.startswith(a):
                    reasons.add('not-prefix-free-inside-word')
    for q, row in enumerate(R0.trans):
        lits = {}
        for key in row:
            if key[0] == 'lit':
                lits.setdefault(key[1], set()).add(key)
        if any(len(v) > 1 for v in lits.values()):
            reasons.add('same-literal-two-labels')
        nonlit = [(k, t) for k, t in row.items() if k[0] != 'lit']
        for (k1, t1), (k2, t2) in itertools.combinations(nonlit, 2):
            if t1 == t2 and ref.with_level(k1, None) == ref.with_level(k2, None):
                continue
            kinds = {k1[0], k2[0]}
            if 'any' in kinds:
                reasons.add('placeholder-overlaps-item')
                continue
            if kinds == {'cmd'}:
                if set(table.get(k1[1], [])) & set(table.get(k2[1], [])):
                    reasons.add('commands-share-candidate')
                continue
            # sub/sub or sub/cmd: regex intersection query
            def rx(k):
                if k[0] == 'sub':
                    return sub_regex(resolver, k[1], table)
                cs = table.get(k[1], [])
                out = z3.Empty(z3.ReSort(z3.StringSort()))
                for c in cs:
                    out = z3.Union(out, z3.Re(z3.StringVal(c)))
                return out
            s = z3.Solver()
            w = z3.String('w')
            s.add(z3.InRe(w, z3.Intersect(rx(k1), rx(k2))))
            if autosmt._check(s, 'word-overlap', stats):
                reasons.add('items-accept-common-word')
    return reasons


# ---------------------------------------------------------------------------------------------

def same_sets(A, B, shown):
    """concrete candidate sets agree: equal apart from the text already typed, which matters only next to other candidates
    (alone it changes nothing for the user; next to others its absence makes the shell complete past it)"""
    A, B = set(A), set(B)
    A0, B0 = A - {shown}, B - {shown}
    if A0 != B0:
        return False
    if A0 and ((shown in A) != (shown in B)):
        return False
    return True


def seteq(A, B, dontcare=None):
    """A and B are equal as sets; an element equal to `dontcare` (the text already typed) may be missing on either side
    only if there is no other element."""
    if all(isinstance(x, str) for x in A) and all(isinstance(x, str) for x in B) and (dontcare is None or isinstance(dontcare, str)):
        return same_sets(A, B, dontcare) if dontcare is not None else set(A) == set(B)
    def dc(x):
        return sym.eq(x, dontcare) if dontcare is not None else False
    fa = [sym.disj([dc(a)] + [sym.eq(a, b) for b in B]) for a in A]
    fb = [sym.disj([dc(b)] + [sym.eq(a, b) for a in A]) for b in B]
    base = sym.conj(fa + fb)
    if dontcare is None:
        return base
    other = sym.disj([sym.neg(dc(a)) for a in A])
    in_a = sym.disj([dc(a) for a in A])
    in_b = sym.disj([dc(b) for b in B])
    both = sym.disj([sym.conj([in_a, in_b]), sym.conj([sym.neg(in_a), sym.neg(in_b)])])
    return sym.conj([base, sym.disj([sym.neg(other), both])])


def pid_of(cmdtext):
    return cmdtext.split()[1]


def log_ok(impl_log, ctx):
    """C17: every completion-phase call the grammar prescribes is made with exactly those arguments, and
    every call made is either one of those or runs a command the grammar expects at a visited point."""
    expected = [(pid_of(t), a1, a2) for (t, a1, a2) in ctx.complete_calls]
    allowed = {pid_of(t) for t in ctx.match_allowed}

    def eq3(x, y):
        if x[0] != y[0]:
            return False
        return sym.conj([sym.eq(x[1], y[1]), sym.eq(x[2], y[2])])
    parts = []
    for e in expected:
        parts.append(sym.disj([eq3(e, i) for i in impl_log]))
    for i in impl_log:
        if i[0] in allowed:
            continue
        parts.append(sym.disj([eq3(i, e) for e in expected]))
    return sym.conj(parts)


def model_words(m, ws):
    return [sym.model_word(m, w) for w in ws]


def concrete_reference(resolver, R0, table, words, prefix, wb):
    log = []
    ctx = refsym.Ctx(lambda c: bool(c), table, log)
    matched, cands = refsym.complete(ctx, resolver, R0, words, prefix, wb)
    shown = refsym.typed_text_as_shown(ctx, prefix, wb)
    return matched, cands, ctx, shown


KNOWN_DEVS = ('subword-prefix-accepted', 'foreign-literal-stops-walk', 'longer-chunk-shadows-exact',
              'last-word-skipped-at-command-point')


def explore_config(ast, probes, table, resolver, R0, K, L, alphabet, wb, max_paths, devs=KNOWN_DEVS, sample_every=7, only_matched=False, deadline=None, check_log=False, cross_every=0, glob_free=True):
    eng = sym.Engine(max_paths=max_paths, deadline=deadline)
    eng.cross_every = cross_every
    ws = [Word('w%d' % i, L, alphabet) for i in range(1, K + 1)]
    pw = Word('p', L, alphabet)
    base = []
    for w in ws + [pw]:
        base.extend(w.constraints())
    words_sym = [SymStr([Slice(w)]) for w in ws]
    prefix_sym = SymStr([Slice(pw)])
    cex = []
    cex_new = []
    cex_log = []
    witnesses = []
    npaths = 0
    sites = set()
    events = set()
    dev_variants = []
    if devs:
        walk = [d for d in devs if d != 'last-word-skipped-at-command-point']
        for choice in (0, 1, 2):
            dev_variants.append((tuple(walk), choice))
            if 'last-word-skipped-at-command-point' in devs:
                dev_variants.append((tuple(walk) + ('last-word-skipped-at-command-point',), choice))

    def program(e):
        it = bashsym.Interp(e, probes, wb, glob_free_alphabet=glob_free)
        it.run(ast)
        rc, reply = bashsym.run_completion(it, '_cmd', ['cmd'] + words_sym + [prefix_sym], K + 1)
        ctx = refsym.Ctx(e.decide, table, [])
        matched, expected = refsym.complete(ctx, resolver, R0, words_sym, prefix_sym, wb)
        shown = refsym.typed_text_as_shown(ctx, prefix_sym, wb)
        same = seteq(reply, expected, shown)
        if only_matched and not matched:
            # the property speaks only about command lines whose complete words the grammar matches
            same = True
        logf = True
        if check_log and same is not False:
            logf = log_ok(it.probe_log, ctx)
            if it.probe_log:
                events.add('command-invoked')
        alts = []
        log_alts = []
        if same is not True or logf is not True:
            for (dv, choice) in dev_variants:
                c2 = refsym.Ctx(e.decide, table, [], dv, choice)
                _, exp2 = refsym.complete(c2, resolver, R0, words_sym, prefix_sym, wb)
                eq2 = seteq(reply, exp2, shown)
                alts.append(eq2)
                if check_log:
                    log_alts.append(sym.conj([eq2, log_ok(it.probe_log, c2)]))
        sites.update(it.sites)
        events.update(ctx.events)
        if reply:
            events.add('nonempty-reply')
        if rc == 1:
            events.add('return-1')
        logq = False
        if check_log and logf is not True:
            # a violation of the invocation contract: the candidates agree with the grammar (or with a listed known
            # deviation) but the calls agree with none of those readings
            acceptable = sym.disj([sym.conj([same, logf])] + log_alts)
            agrees = sym.disj([same] + alts)
            logq = sym.conj([agrees, sym.neg(acceptable)])
        return same, alts, logq

    limit = None
    gen = eng.explore(program, base)
    while True:
        try:
            (same, alts, logq) = next(gen)
        except StopIteration:
            break
        except sym.PathLimit as e:
            limit = str(e)
            break
        npaths += 1
        if logq is not False:
            if eng.check([] if logq is True else [logq], 'invocations-differ'):
                cex_log.append(model_words(eng.model(), ws + [pw]))
        if same is True:
            pass
        else:
            differs = eng.check([], 'witness') if same is False else eng.check([z3.Not(same)], 'result-differs')
            if differs:
                if len(cex) < 6:
                    cex.append(model_words(eng.model(), ws + [pw]))
                # is every such input explained by the known deviations?
                acc = sym.disj(alts)
                if acc is True:
                    pass
                else:
                    extra = [z3.Not(same)] if same is not False else []
                    if acc is not False:
                        extra.append(z3.Not(acc))
                    if eng.check(extra, 'unexplained-by-known'):
                        cex_new.append(model_words(eng.model(), ws + [pw]))
        if npaths % sample_every == 1:
            if eng.check([], 'witness'):
                witnesses.append(model_words(eng.model(), ws + [pw]))
    return {'paths': npaths, 'limit': limit, 'cex': cex, 'cex_new': cex_new, 'cex_log': cex_log, 'witnesses': witnesses, 'queries': eng.queries,
            'solver_s': eng.solver_s, 'sites': sorted(sites), 'events': sorted(events)}


def attribute(resolver, R0, table, ws, wb, real_set, shown, devs=KNOWN_DEVS, real_log=None):
    """Smallest set of known deviations whose model reproduces what the real bash did (candidates and, if
    given, the command invocations); None if none does."""
    for n in range(1, len(devs) + 1):
        for combo in itertools.combinations(devs, n):
            for choice in (0, 1, 2):
                ctx = refsym.Ctx(lambda c: bool(c), table, [], combo, choice)
                _, c = refsym.complete(ctx, resolver, R0, ws[:-1], ws[-1], wb)
                if same_sets(c, real_set, shown):
                    if real_log is not None and log_ok(real_log, ctx) is not True:
                        continue
                    return combo
    return None


def analyse(job):
    """job: dict(grammar=tree, probes={id:text}, K=int, configs=[wordbreaks...], max_paths=int, extra_len=int)"""
    g = job['grammar']
    probes = job.get('probes', {})
    text = gram.print_grammar(g)
    t_start = time.time()
    res = _analyse(job, g, probes, text)
    res['elapsed_s'] = round(time.time() - t_start, 1)
    return res


def _analyse(job, g, probes, text):
    res = {'text': text, 'status': None, 'violations': [], 'inconclusive': [], 'paths': 0,
           'queries': {}, 'solver_s': 0.0, 'validated': 0, 'region': [], 'cex_checked': 0,
           'nontrivial': False, 'sites': [], 'events': []}
    try:
        try:
            resolver, R0 = ref.reference(g, 'bash')
        except ref.RefError as e:
            res['status'] = 'outside-reference:%s' % e
            return res
        table = cmd_candidate_table(g, probes)
        stats = autosmt.Stats()
        reasons = region(resolver, R0, table, stats)
        res['region'] = sorted(reasons)
        allowed = set(job.get('allow_regions', ()))
        if reasons - allowed:
            res['status'] = 'outside-region'
            return res
        rc, script, err = common.emit_script('bash', text)
        if rc != 0:
            exp = ref.expected_rejection(resolver, R0)
            first = err.strip().split('\n')[0] if err.strip() else ''
            if exp is not None or ref.tolerated_rejections(resolver):
                res['status'] = 'rejected'
            else:
                res['status'] = 'unexpected-rejection'
                res['inconclusive'].append('complgen rejected a clean-by-construction grammar: %s: %r' % (first, text))
            return res
        ok, out = bashreal.bash_n(script)
        if not ok:
            res['status'] = 'ok'
            res['violations'].append(('bash-syntax', 'emitted script fails bash -n: %s' % out.strip()[:200],
                                      {'grammar': text, 'script': script}))
            return res
        ast = parse(script)
        vocab = vocabulary(g, probes)
        alpha = set(''.join(vocab)) - set('*?[\\')
        for c in job.get('extra_alphabet', 'z=:'):
            alpha.add(c)
        if job.get('glob_words'):
            # typed words may contain * and ?: an unquoted use of a typed word as a pattern is then interpreted as the glob it is
            alpha.update('*?')
        alphabet = ''.join(sorted(alpha))
        L = min(max([len(v) for v in vocab] + [1, longest_word(resolver, table)]) + job.get('extra_len', 1), job.get('max_len', 12))
        res['bounds'] = {'K': job['K'], 'L': L, 'alphabet': alphabet, 'configs': job['configs']}
        res['status'] = 'ok'
        res['nontrivial'] = R0.n >= 3 or bool(resolver.sub_autos)
        all_cex = []
        all_wit = []
        events = set()
        deadline = time.time() + job.get('budget_s', 90)
        for wb in job['configs']:
            for K in range(0, job['K'] + 1):
                r = explore_config(ast, probes, table, resolver, R0, K, L, alphabet, wb, job['max_paths'],
                                   devs=job.get('devs', KNOWN_DEVS), only_matched=job.get('only_matched', False), deadline=deadline,
                                   check_log=job.get('check_log', False), cross_every=job.get('cross_every', 0),
                                   glob_free=not job.get('glob_words', False))
                res['paths'] += r['paths']
                res['solver_s'] += r['solver_s']
                if r['limit']:
                    # not explored to the end: counted as such; what was found before the limit is still replayed
                    res['status'] = 'budget-exceeded'
                    res['budget_note'] = r['limit']
                for k, v in r['queries'].items():
                    res['queries'][k] = res['queries'].get(k, 0) + v
                res['sites'] = sorted(set(res['sites']) | set(r['sites']))
                events.update(r['events'])
                for c in r['cex_log'][:10]:
                    all_cex.append((wb, c))
                for c in r['cex_new'][:20]:
                    all_cex.append((wb, c))
                for c in r['cex']:
                    all_cex.append((wb, c))
                for c in r['witnesses'][:4]:
                    all_wit.append((wb, c))
        res['events'] = sorted(events)
        for k, v in stats.queries.items():
            res['queries'][k] = res['queries'].get(k, 0) + v
        # replay counterexamples and validate the interpreter on path witnesses, in the real bash
        seen = set()
        uniq = []
        for is_cex, lst in ((True, all_cex), (False, all_wit)):
            for (wb, ws) in lst:
                key = (wb, tuple(ws))
                if key in seen:
                    continue
                seen.add(key)
                uniq.append((is_cex, wb, ws))
        cases = [(wb, ['cmd'] + ws, len(ws)) for (_, wb, ws) in uniq]
        if cases:
            real = bashreal.run_real(script, probes, cases)
            for (is_cex, wb, ws), (rrc, rreply, rlog) in zip(uniq, real):
                it = bashsym.Interp(None, probes, wb)
                it.run(ast)
                irc, ireply = bashsym.run_completion(it, '_cmd', ['cmd'] + ws, len(ws))
                if (irc, ireply) != (rrc, rreply):
                    res['inconclusive'].append('interpreter mismatch on %r (wordbreaks %r): interpreter %r, real bash %r; grammar %r'
                                               % (ws, wb, (irc, ireply), (rrc, rreply), text))
                    continue
                res['validated'] += 1
                matched, expected, cctx, shown = concrete_reference(resolver, R0, table, ws[:-1], ws[-1], wb)
                if is_cex:
                    res['cex_checked'] += 1
                if job.get('only_matched') and not matched:
                    continue
                if not same_sets(rreply, expected, shown):
                    what = ('bash offers %r for words %r + typed %r (COMP_WORDBREAKS %r); the grammar prescribes %r'
                            % (sorted(set(rreply)), ws[:-1], ws[-1], wb, sorted(set(expected))))
                    combo = attribute(resolver, R0, table, ws, wb, set(rreply), shown)
                    key = '+'.join(combo) if combo else 'completion-differs'
                    res['violations'].append((key, what,
                                              {'grammar': text, 'words': ws, 'wordbreaks': wb,
                                               'real': sorted(set(rreply)), 'expected': sorted(set(expected)),
                                               'matched_by_grammar': matched, 'rc': rrc, 'script': script,
                                               'probes': probes}))
                elif job.get('check_log') and log_ok([tuple(x) for x in rlog], cctx) is not True and \
                        attribute(resolver, R0, table, ws, wb, set(rreply), shown, real_log=[tuple(x) for x in rlog]) is None:
                    exp_calls = sorted((pid_of(t), a1, a2) for (t, a1, a2) in cctx.complete_calls)
                    what = ('for words %r + typed %r bash ran the commands %r; the grammar prescribes the completion calls %r and allows '
                            'only the commands %r to run while matching' % (ws[:-1], ws[-1], [tuple(x) for x in rlog], exp_calls,
                                                                           sorted(pid_of(t) for t in cctx.match_allowed)))
                    res['violations'].append(('invocations-differ', what,
                                              {'grammar': text, 'words': ws, 'wordbreaks': wb, 'real_log': [list(x) for x in rlog],
                                               'expected_completion_calls': exp_calls, 'script': script, 'probes': probes}))
                elif is_cex:
                    res['inconclusive'].append('solver counterexample %r does not reproduce (encoding error); grammar %r'
                                               % (ws, text))
        if job.get('concrete_vocab_cases'):
            # every vocabulary item typed completely / partially, as itself: run only in the real bash
            # (no symbolic word can contain the glob/backslash characters these literals are made of)
            cc = []
            for v in sorted(vocab):
                for wbx in job['configs']:
                    cc.append((wbx, [v, '']))
                    for i in range(0, len(v) + 1):
                        cc.append((wbx, [v[:i]]))
                    cc.append((wbx, [v + 'z', '']))
                    cc.append((wbx, [(v[:-1] + 'z') if v else 'z', '']))
            real = bashreal.run_real(script, probes, [(wbx, ['cmd'] + ws, len(ws)) for (wbx, ws) in cc])
            for (wbx, ws), (rrc, rreply, rlog) in zip(cc, real):
                matched, expected, cctx, shown = concrete_reference(resolver, R0, table, ws[:-1], ws[-1], wbx)
                res['validated'] += 1
                if not same_sets(rreply, expected, shown):
                    combo = attribute(resolver, R0, table, ws, wbx, set(rreply), shown)
                    key = '+'.join(combo) if combo else 'special-characters'
                    what = ('bash offers %r for words %r + typed %r (COMP_WORDBREAKS %r); the grammar prescribes %r'
                            % (sorted(set(rreply)), ws[:-1], ws[-1], wbx, sorted(set(expected))))
                    res['violations'].append((key, what, {'grammar': text, 'words': ws, 'wordbreaks': wbx,
                                                          'real': sorted(set(rreply)), 'expected': sorted(set(expected)),
                                                          'script': script, 'probes': probes}))
    except Unsupported as e:
        res['status'] = 'unsupported'
        res['inconclusive'].append('unsupported bash construct: %s; grammar %r' % (e, text))
    except sym.PathLimit as e:
        # not explored to the end: the program is not part of what this run covered (counted, never a pass)
        res['status'] = 'budget-exceeded'
        res['violations'] = []
        res['budget_note'] = '%s' % e
    except Inconclusive as e:
        res['status'] = 'inconclusive'
        res['inconclusive'].append('%s; grammar %r' % (e, text))
    return res
