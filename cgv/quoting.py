"""Reader models of the target languages' double-quoted string constants, written from the shells'
manuals (not from the escapers). One table per language drives both a concrete decoder (Python) and
the symbolic fold over guarded cells used by E1.

A table maps state -> list of (byte set | None (= any other byte), next state, emitted bytes, expands)
where an emitted byte is an int or 'b' (the byte just read).
"""
import z3

START, IN, ESC, DONE, BAD, Q2 = range(6)
NSTATE_BITS = 3

Q, BS, DOLLAR, BT, NL = ord('"'), ord('\\'), ord('$'), ord('`'), ord('\n')


def sh_like(escapable, expanding):
    return {
        START: [({Q}, IN, [], False), (None, BAD, [], False)],
        IN: [({Q}, DONE, [], False), ({BS}, ESC, [], False)] +
            [({c}, IN, ['b'], True) for c in expanding] + [(None, IN, ['b'], False)],
        ESC: [(set(escapable), IN, ['b'], False), ({NL}, IN, [], False), (None, IN, [BS, 'b'], False)],
        DONE: [(None, BAD, [], False)],
        BAD: [(None, BAD, [], False)],
    }


READERS = {
    # bash manual, "Double Quotes": backslash retains its meaning only before $ ` " \ newline;
    # $ and ` keep their special meaning (history expansion is off in a sourced, non-interactive script)
    'bash': (sh_like([DOLLAR, BT, Q, BS], [DOLLAR, BT]), {DONE}),
    # zshmisc, "Quoting": inside double quotes \ quotes the characters \ ` " $ (and newline continues)
    'zsh': (sh_like([DOLLAR, BT, Q, BS], [DOLLAR, BT]), {DONE}),
    # fish docs, "Quotes": in double quotes the only escapes are \" \$ \\ and \newline; $ expands
    'fish': (sh_like([DOLLAR, Q, BS], [DOLLAR]), {DONE}),
    # about_Quoting_Rules / about_Special_Characters: backtick escapes; `0 `a `b `e `f `n `r `t `v are
    # control characters, `u{..} a code point; "" is a quote; $ expands
    'pwsh': ({
        START: [({Q}, IN, [], False), (None, BAD, [], False)],
        IN: [({Q}, Q2, [], False), ({BT}, ESC, [], False), ({DOLLAR}, IN, ['b'], True), (None, IN, ['b'], False)],
        Q2: [({Q}, IN, [Q], False), (None, BAD, [], False)],
        ESC: [({ord('0')}, IN, [0], False), ({ord('a')}, IN, [7], False), ({ord('b')}, IN, [8], False),
              ({ord('e')}, IN, [27], False), ({ord('f')}, IN, [12], False), ({ord('n')}, IN, [10], False),
              ({ord('r')}, IN, [13], False), ({ord('t')}, IN, [9], False), ({ord('v')}, IN, [11], False),
              ({ord('u')}, BAD, [], False), (None, IN, ['b'], False)],
        DONE: [(None, BAD, [], False)],
        BAD: [(None, BAD, [], False)],
    }, {DONE, Q2}),
    # DOT language: a quoted string ends at the first " not preceded by a backslash; \" is a quote,
    # every other backslash pair is kept for the label's escString processing
    'dot': ({
        START: [({Q}, IN, [], False), (None, BAD, [], False)],
        IN: [({Q}, DONE, [], False), ({BS}, ESC, [], False), (None, IN, ['b'], False)],
        ESC: [({Q}, IN, [Q], False), (None, IN, [BS, 'b'], False)],
        DONE: [(None, BAD, [], False)],
        BAD: [(None, BAD, [], False)],
    }, {DONE}),
}


def decode(lang, data):
    """concrete: -> (well_terminated, expands, decoded bytes)"""
    table, finals = READERS[lang]
    st = START
    out = bytearray()
    expands = False
    for b in data:
        for (cls, nxt, emits, ex) in table[st]:
            if cls is None or b in cls:
                for e in emits:
                    out.append(b if e == 'b' else e)
                expands = expands or ex
                st = nxt
                break
    return st in finals, expands, bytes(out)


def symbolic_decode(lang, cells):
    """cells: list of (guard, byte). -> (ok formula, expands formula, emissions: list of (guard, byte))"""
    table, finals = READERS[lang]
    st = z3.BitVecVal(START, NSTATE_BITS)
    expands = z3.BoolVal(False)
    emissions = []
    for (g, b) in cells:
        gz = z3.BoolVal(True) if g is True else g
        bz = z3.BitVecVal(b, 8) if isinstance(b, int) else b
        nxt_expr = st
        slot = [[], []]     # per emission slot: list of (cond, byte)
        ex_conds = []
        for s_id, rules in table.items():
            in_state = st == s_id
            earlier = []
            for (cls, nxt, emits, ex) in rules:
                if cls is None:
                    match = z3.Not(z3.Or(earlier)) if earlier else z3.BoolVal(True)
                else:
                    match = z3.Or([bz == c for c in sorted(cls)])
                    earlier.append(match)
                cond = z3.And(gz, in_state, match)
                nxt_expr = z3.If(cond, z3.BitVecVal(nxt, NSTATE_BITS), nxt_expr)
                for k, e in enumerate(emits):
                    slot[k].append((cond, bz if e == 'b' else z3.BitVecVal(e, 8)))
                if ex:
                    ex_conds.append(cond)
        for k in range(2):
            if slot[k]:
                guard = z3.Or([c for c, _ in slot[k]])
                byte = z3.BitVecVal(0, 8)
                for c, v in slot[k]:
                    byte = z3.If(c, v, byte)
                emissions.append((guard, byte))
        if ex_conds:
            expands = z3.Or([expands] + ex_conds)
        st = nxt_expr
    ok = z3.Or([st == f for f in sorted(finals)])
    return ok, expands, emissions


def equals_input(emissions, s_bytes, n, nbits):
    """the emitted bytes, in order, are exactly s_bytes[0:n]"""
    cnt = z3.BitVecVal(0, nbits)
    n = z3.ZeroExt(nbits - n.size(), n) if n.size() < nbits else n
    cs = []
    for (g, b) in emissions:
        sel = z3.BitVecVal(0, 8)
        inside = z3.BoolVal(False)
        for j, sb in enumerate(s_bytes):
            here = cnt == j
            sel = z3.If(here, sb, sel)
            inside = z3.Or(inside, z3.And(here, z3.ULT(z3.BitVecVal(j, nbits), n)))
        cs.append(z3.Implies(g, z3.And(inside, b == sel)))
        cnt = z3.If(g, cnt + 1, cnt)
    cs.append(cnt == n)
    return z3.And(cs)
