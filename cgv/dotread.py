"""A reader for the subset of the Graphviz DOT language the --dfa / --regex dumps use, written from the
DOT grammar (https://graphviz.org/doc/info/lang.html): digraph, node / edge statements with attribute
lists, `ID = ID`, `node [...]` defaults, subgraphs, quoted strings (a quoted string ends at the first
double quote that is not preceded by a backslash)."""
import re


class DotError(Exception):
    pass


TOKEN = re.compile(r'\s*(?:(->)|([A-Za-z_\x80-\xff][A-Za-z0-9_\x80-\xff]*|-?(?:\.\d+|\d+(?:\.\d*)?))|([{}\[\];,=])|(")|(#|//))', re.S)


def tokens(text):
    i = 0
    out = []
    n = len(text)
    while True:
        while i < n and text[i] in ' \t\r\n':
            i += 1
        if i >= n:
            return out
        m = TOKEN.match(text, i)
        if not m:
            raise DotError('unexpected character %r at offset %d' % (text[i], i))
        if m.group(1):
            out.append(('->', '->'))
            i = m.end()
        elif m.group(2):
            out.append(('id', m.group(2)))
            i = m.end()
        elif m.group(3):
            out.append((m.group(3), m.group(3)))
            i = m.end()
        elif m.group(4):
            j = m.end()
            buf = []
            while True:
                if j >= n:
                    raise DotError('unterminated quoted string starting at offset %d' % i)
                c = text[j]
                if c == '\\' and j + 1 < n:
                    if text[j + 1] == '"':
                        buf.append('"')
                    elif text[j + 1] == '\n':
                        pass
                    else:
                        buf.append(text[j:j + 2])
                    j += 2
                    continue
                if c == '"':
                    break
                buf.append(c)
                j += 1
            out.append(('str', ''.join(buf)))
            i = j + 1
        else:
            j = text.find('\n', m.end())
            i = n if j < 0 else j


KEYWORDS = ('node', 'edge', 'graph', 'digraph', 'subgraph', 'strict')


class Parser:
    def __init__(self, text):
        self.t = tokens(text)
        self.i = 0

    def peek(self):
        return self.t[self.i] if self.i < len(self.t) else ('eof', None)

    def take(self, kind=None):
        tok = self.peek()
        if kind is not None and tok[0] != kind:
            raise DotError('expected %s, found %r (token %d)' % (kind, tok, self.i))
        self.i += 1
        return tok

    def ident(self):
        tok = self.peek()
        if tok[0] == 'id' and tok[1].lower() in KEYWORDS:
            raise DotError('keyword %r used as an identifier (token %d)' % (tok[1], self.i))
        if tok[0] in ('id', 'str'):
            self.i += 1
            return tok[1]
        raise DotError('expected an identifier, found %r (token %d)' % (tok, self.i))

    def graph(self):
        tok = self.take('id')
        if tok[1] not in ('digraph', 'graph'):
            raise DotError('expected digraph')
        name = self.ident() if self.peek()[0] in ('id', 'str') else None
        self.take('{')
        body = self.stmts()
        self.take('}')
        if self.peek()[0] != 'eof':
            raise DotError('text after the closing brace: %r' % (self.peek(),))
        return {'name': name, 'stmts': body}

    def stmts(self):
        out = []
        while self.peek()[0] not in ('}', 'eof'):
            out.append(self.stmt())
            if self.peek()[0] == ';':
                self.take()
        return out

    def attrs(self):
        d = {}
        while self.peek()[0] == '[':
            self.take()
            while self.peek()[0] != ']':
                k = self.ident()
                self.take('=')
                d[k] = self.ident()
                if self.peek()[0] in (',', ';'):
                    self.take()
            self.take(']')
        return d

    def stmt(self):
        tok = self.peek()
        if tok == ('id', 'subgraph'):
            self.take()
            name = self.ident() if self.peek()[0] in ('id', 'str') else None
            self.take('{')
            body = self.stmts()
            self.take('}')
            return ('subgraph', name, body)
        if tok[0] == 'id' and tok[1] in ('node', 'edge', 'graph') and self.t[self.i + 1][0] == '[':
            self.take()
            return ('default', tok[1], self.attrs())
        a = self.ident()
        if self.peek()[0] == '=':
            self.take()
            return ('attr', a, self.ident())
        if self.peek()[0] == '->':
            chain = [a]
            while self.peek()[0] == '->':
                self.take()
                chain.append(self.ident())
            return ('edge', chain, self.attrs())
        return ('node', a, self.attrs())


def parse(text):
    return Parser(text).graph()
