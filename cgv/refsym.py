"""Reference completion semantics for bash (C01/C12/C17/C09-iii), executable on concrete strings and
on symbolic strings (sym.py) through one abstraction: decide(condition).

Meaning implemented (DESIGN.md 3.3):
  * matching a complete word at a set of automaton states: a literal reading wins; otherwise the union
    of the continuations of every non-literal item the word matches (within-word expression: the
    word is in its language; command: the word equals one of its candidates; placeholder: always)
  * completion: for the lowest `||` level with any candidate that extends the typed prefix, exactly
    those candidates; then bash's removal of the typed prefix up to its last COMP_WORDBREAKS char
  * nothing if the words cannot be matched
"""
from . import sym, ref
from .sym import concat


class Ctx:
    def __init__(self, decide, cmd_candidates, invoke_log=None, dev=(), choice=0):
        self.decide = decide
        self.cmd_candidates = cmd_candidates      # command text -> list of candidates (first field of each line)
        self.log = invoke_log
        # known deviations of the implementation, modelled so that a violation can be attributed
        # to a listed finding (known_findings.json) or recognised as a different one
        self.dev = set(dev)
        self.choice = choice
        self.events = set()     # vacuity witnesses: which kinds of steps this evaluation took
        self.match_allowed = set()   # commands the grammar expects at some point the walk visits (C17)
        self.complete_calls = []     # (command text, arg1, arg2) the completion phase must make (C17)


def first_field(line):
    """what the documented contract makes of one output line: the text before the first tab"""
    return line.split('\t', 1)[0]


# -- within-word automaton over a (possibly symbolic) word --------------------------------------------

def sub_reach(ctx, m, word, maxlen):
    """reach[i] = {state: condition} : after consuming exactly i characters of `word` in complete
    chunks the within-word automaton m can be in `state`. Conditions are formulas over the word.
    (language-theoretic, not greedy: every tokenisation is followed)"""
    reach = [dict() for _ in range(maxlen + 1)]
    reach[0][m.start] = True
    for i in range(maxlen + 1):
        for q, cond in list(reach[i].items()):
            for key, t in m.trans[q].items():
                if key[0] == 'lit':
                    chunks = [key[1]]
                elif key[0] == 'cmd':
                    chunks = [c for c in ctx.cmd_candidates.get(key[1], []) if c != '']
                else:
                    continue
                for ch in chunks:
                    j = i + len(ch)
                    if j > maxlen:
                        continue
                    c2 = sym.conj([cond, sym.startswith(drop(word, i), ch)])
                    if c2 is False:
                        continue
                    reach[j][t] = sym.disj([reach[j].get(t, False), c2])
    return reach


def drop(word, i):
    """word[i:] for a word whose first i characters are known to exist along the formula using it"""
    if isinstance(word, str):
        return word[i:]
    if i == 0:
        return word
    parts = list(word.parts)
    out = []
    skip = i
    for p in parts:
        if skip == 0:
            out.append(p)
            continue
        if isinstance(p, str):
            if skip >= len(p):
                skip -= len(p)
            else:
                out.append(p[skip:])
                skip = 0
        else:
            if p.stop is not None:
                ln = p.stop - p.start
                if skip >= ln:
                    skip -= ln
                else:
                    out.append(sym.Slice(p.w, p.start + skip, p.stop))
                    skip = 0
            else:
                out.append(sym.Slice(p.w, p.start + skip, None))
                skip = 0
    return sym.mk(out)


def take(word, i):
    if isinstance(word, str):
        return word[:i]
    out = []
    need = i
    for p in word.parts:
        if need == 0:
            break
        if isinstance(p, str):
            out.append(p[:need])
            need -= len(p[:need])
        else:
            if p.stop is not None:
                ln = min(need, p.stop - p.start)
                out.append(sym.Slice(p.w, p.start, p.start + ln))
                need -= ln
            else:
                out.append(sym.Slice(p.w, p.start, p.start + need))
                need = 0
    return sym.mk(out)


def max_len(word):
    if isinstance(word, str):
        return len(word)
    n = 0
    for p in word.parts:
        if isinstance(p, str):
            n += len(p)
        else:
            end = p.w.L if p.stop is None else min(p.stop, p.w.L)
            n += max(0, end - p.start)
    return n


def sub_matches(ctx, m, word):
    """condition: word is in the language of within-word automaton m"""
    if ctx.dev & set(WALK_DEVS):
        return emitted_sub_matches(ctx, m, word)
    L = max_len(word)
    reach = sub_reach(ctx, m, word, L)
    alts = []
    for i in range(L + 1):
        for q, cond in reach[i].items():
            if q in m.accepting or 'subword-prefix-accepted' in ctx.dev:
                alts.append(sym.conj([cond, sym.length_cmp(word, i, lambda a, b: a == b)]))
            if ('any',) in m.trans[q]:
                # a placeholder inside a word takes the rest of the word, whatever it is
                alts.append(sym.conj([cond, sym.length_cmp(word, i, lambda a, b: a >= b)]))
    return sym.disj(alts)


# -- word walk -----------------------------------------------------------------------------------------

def step(ctx, resolver, R, states, word):
    """states: set of states of the reference automaton R (absolute levels) -> next set"""
    nxt = set()
    for q in sorted(states):
        row = R.trans[q]
        lit_hit = None
        for key in sorted(row, key=repr):
            if key[0] == 'lit' and ctx.decide(sym.eq(word, key[1])):
                lit_hit = row[key]
                break
        if lit_hit is not None:
            nxt.add(lit_hit)
            ctx.events.add('literal-step')
            continue
        sub_hits = []
        for key in sorted(row, key=repr):
            if key[0] == 'sub':
                if ctx.decide(sub_matches(ctx, resolver.sub_autos[key[1]], word)):
                    sub_hits.append(row[key])
                    ctx.events.add('within-word-step')
        if sub_hits and ctx.dev & set(WALK_DEVS):
            # the emitted loop tries the within-word items one after the other and takes the first whose walk
            # succeeds, then looks no further (not at commands or a placeholder either); with the walk deviations
            # switched on several items can accept the same word (every item accepts the empty word), and which
            # one comes first is the script's business: `choice` enumerates the possibilities for attribution
            uniq = sorted(set(sub_hits))
            nxt.add(uniq[ctx.choice % len(uniq)])
            continue
        nxt.update(sub_hits)
        for key in sorted(row, key=repr):
            if key[0] == 'sub':
                continue
            elif key[0] == 'cmd':
                cands = ctx.cmd_candidates.get(key[1])
                if cands is None:
                    raise KeyError('candidates of command %r unknown' % key[1])
                if ctx.decide(sym.disj([sym.eq(word, c) for c in cands])):
                    nxt.add(row[key])
                    ctx.events.add('command-step')
            elif key[0] == 'any':
                nxt.add(row[key])
                ctx.events.add('any-word-step')
    return nxt


def sub_candidates(ctx, m, prefix):
    """Candidates a within-word automaton offers for the typed prefix: for every way to read a
    leading part of the prefix as complete chunks, the chunks expected next that extend the rest.
    Returns list of strings; levels inside the word: first level (rank) with any candidate."""
    if ctx.dev & set(WALK_DEVS):
        return emitted_sub_candidates(ctx, m, prefix)
    L = max_len(prefix)
    reach = sub_reach(ctx, m, prefix, L)
    points = []
    for i in range(L + 1):
        for q, cond in sorted(reach[i].items()):
            if cond is False:
                continue
            if ctx.decide(sym.conj([cond, sym.length_cmp(prefix, i, lambda a, b: a >= b)])):
                points.append((i, q))
    levels = sorted({key[3] for (i, q) in points for key in m.trans[q] if key[0] in ('lit', 'cmd')})
    for lv in levels:
        cands = []
        for (i, q) in points:
            rest = drop(prefix, i)
            head = take(prefix, i)
            for key in sorted(m.trans[q], key=repr):
                if key[0] == 'lit' and key[3] == lv:
                    if ctx.decide(sym.startswith(key[1], rest)):
                        cands.append(concat(head, key[1]))
                elif key[0] == 'cmd' and key[3] == lv:
                    if not passed_through(ctx, m, q, rest):
                        ctx.complete_calls.append((key[1], rest, head))
                    for c in ctx.cmd_candidates.get(key[1], []):
                        if ctx.decide(sym.startswith(c, rest)):
                            cands.append(concat(head, c))
        if cands:
            return cands
    return []


def passed_through(ctx, m, q, rest):
    """The rest of the typed word starts with a complete chunk expected at q: the typed text can also be
    read as having gone past this point, and whether a command expected here is still asked is left
    open (the call is allowed, not required)."""
    chunks = []
    for key in m.trans[q]:
        if key[0] == 'lit':
            chunks.append(key[1])
        elif key[0] == 'cmd':
            chunks.extend(c for c in ctx.cmd_candidates.get(key[1], []) if c)
    return ctx.decide(sym.disj([sym.startswith(rest, c) for c in chunks]))


def note_expected_commands(ctx, resolver, R, states):
    for q in states:
        for key in R.trans[q]:
            if key[0] == 'cmd':
                ctx.match_allowed.add(key[1])
            elif key[0] == 'sub':
                for row in resolver.sub_autos[key[1]].trans:
                    for k2 in row:
                        if k2[0] == 'cmd':
                            ctx.match_allowed.add(k2[1])


def complete(ctx, resolver, R, words, prefix, wordbreaks):
    """-> (matched: bool, candidates: list of strings)"""
    states = {R.start}
    note_expected_commands(ctx, resolver, R, states)
    for wi, w in enumerate(words):
        if ('last-word-skipped-at-command-point' in ctx.dev and wi == len(words) - 1 and
                command_point(ctx, resolver, R, states, w)):
            break
        nxt = step(ctx, resolver, R, states, w)
        if not nxt:
            ctx.events.add('unmatched')
            return False, []
        states = nxt
        note_expected_commands(ctx, resolver, R, states)
    levels = {}
    for q in sorted(states):
        for key in sorted(R.trans[q], key=repr):
            lv = ref.level_of(key)
            if lv is not None:
                levels.setdefault(lv, []).append(key)
    result = []
    for lv in sorted(levels):
        cands = []
        for key in levels[lv]:
            if key[0] == 'lit':
                # the candidate is the literal followed by a space; it is the candidate that has to
                # extend the typed text
                if ctx.decide(sym.startswith(key[1] + ' ', prefix)):
                    cands.append(key[1] + ' ')
            elif key[0] == 'sub':
                cands.extend(sub_candidates(ctx, resolver.sub_autos[key[1]], prefix))
            elif key[0] == 'cmd':
                ctx.complete_calls.append((key[1], prefix, ''))
                for c in ctx.cmd_candidates.get(key[1], []):
                    if ctx.decide(sym.startswith(c, prefix)):
                        cands.append(c)
        if cands:
            result = cands
            if lv != min(levels):
                ctx.events.add('fallback-level-used')
            break
    if not result:
        return True, []
    return True, [strip_wordbreak(ctx, c, prefix, wordbreaks) for c in result]


def typed_text_as_shown(ctx, prefix, wordbreaks):
    """The typed word after bash's word-break stripping. A candidate equal to it would offer what
    is already fully typed (possible only for within-word and command candidates, which carry no
    trailing space); the properties do not say whether it is offered, so it is neither required
    nor forbidden."""
    return strip_wordbreak(ctx, prefix, prefix, wordbreaks)


def command_point(ctx, resolver, R, states, word):
    """The word is neither an expected literal nor matched by an expected within-word expression, and
    some command expected here has candidates none of which is the word: the emitted loop then
    stops matching when this is the last word before the cursor and completes from the state
    *before* it -- without trying the remaining commands or a placeholder (known finding)."""
    for q in sorted(states):
        for key in sorted(R.trans[q], key=repr):
            if key[0] == 'lit' and ctx.decide(sym.eq(word, key[1])):
                return False
            if key[0] == 'sub' and ctx.decide(sub_matches(ctx, resolver.sub_autos[key[1]], word)):
                return False
    for q in sorted(states):
        for key in sorted(R.trans[q], key=repr):
            if key[0] == 'cmd':
                cands = ctx.cmd_candidates.get(key[1], [])
                if cands and not ctx.decide(sym.disj([sym.eq(word, c) for c in cands])):
                    return True
    return False


def strip_wordbreak(ctx, cand, prefix, wordbreaks):
    """bash shows the candidate without the typed text up to its last word-break character"""
    if not wordbreaks:
        return cand
    if isinstance(prefix, str):
        k = max((prefix.rfind(c) for c in wordbreaks), default=-1) + 1
        return cand[k:]
    L = max_len(prefix)
    # decide the position of the last word-break character in the prefix
    for k in range(L, 0, -1):
        # prefix has a word-break char at position k-1 and none later
        conds = [sym.length_cmp(prefix, k, lambda a, b: a >= b)]
        at = sym.disj([sym.startswith(drop(prefix, k - 1), c) for c in wordbreaks])
        later = []
        for j in range(k, L):
            later.append(sym.conj([sym.length_cmp(prefix, j + 1, lambda a, b: a >= b),
                                   sym.disj([sym.startswith(drop(prefix, j), c) for c in wordbreaks])]))
        if ctx.decide(sym.conj(conds + [at, sym.neg(sym.disj(later))])):
            return drop(cand, k)
    return cand


# ---------------------------------------------------------------------------------------------
# Attribution model: the within-word walk *as the emitter writes it* (greedy, literals in decreasing
# length), with one switch per known deviation. It is used only to decide whether a reproducing
# violation is one of the listed known findings; the oracle is the language-theoretic semantics
# above. Switch on = behaves as the emitted loop; off = the repaired behaviour.
#   'subword-prefix-accepted'         a word consumed completely counts as matched in any state
#   'foreign-literal-stops-walk'      a literal of *another* state that extends the rest stops the walk
#   'longer-chunk-shadows-exact'      a longer literal/candidate extending the rest stops the walk before
#                                     an exact match of a shorter one is tried (C12)

WALK_DEVS = ('subword-prefix-accepted', 'foreign-literal-stops-walk', 'longer-chunk-shadows-exact')


def emitted_walk(ctx, m, word, mode):
    """-> (state, consumed length, matched) following the emitted loop."""
    L = max_len(word)
    all_lits = sorted({k[1] for row in m.trans for k in row if k[0] == 'lit'}, key=lambda t: (len(t), t), reverse=True)
    q, i = m.start, 0
    guard = 0
    while True:
        guard += 1
        if guard > L + 2:
            break
        if ctx.decide(length_le(word, i)):
            return q, i, True
        rest = drop(word, i)
        row = m.trans[q]
        valid = {k[1]: t for k, t in row.items() if k[0] == 'lit'}
        consumed = None
        stop = False
        if 'longer-chunk-shadows-exact' not in ctx.dev and mode == 'matches':
            for t in all_lits:
                if t in valid and ctx.decide(sym.eq(rest, t)):
                    consumed = (valid[t], len(t))
                    break
        if consumed is None:
            for t in all_lits:
                if t in valid and ctx.decide(sym.eq(rest, t)):
                    consumed = (valid[t], len(t))
                    break
                if (t in valid or 'foreign-literal-stops-walk' in ctx.dev) and ctx.decide(sym.startswith(t, rest)):
                    stop = True
                    break
                if t in valid and ctx.decide(sym.startswith(rest, t)):
                    consumed = (valid[t], len(t))
                    break
        if stop:
            return q, i, False
        if consumed is not None:
            q, i = consumed[0], i + consumed[1]
            continue
        for key in sorted((k for k in row if k[0] == 'cmd'), key=repr):
            cands = sorted([c for c in ctx.cmd_candidates.get(key[1], [])], key=lambda t: (len(t), t), reverse=True)
            if 'longer-chunk-shadows-exact' not in ctx.dev and mode == 'matches':
                for c in cands:
                    if ctx.decide(sym.eq(rest, c)):
                        consumed = (row[key], len(c))
                        break
            if consumed is None:
                for c in cands:
                    if ctx.decide(sym.eq(rest, c)):
                        consumed = (row[key], len(c))
                        break
                    if ctx.decide(sym.startswith(c, rest)):
                        stop = True
                        break
                    if c != '' and ctx.decide(sym.startswith(rest, c)):
                        consumed = (row[key], len(c))
                        break
            if stop or consumed is not None:
                break
        if stop:
            return q, i, False
        if consumed is not None:
            q, i = consumed[0], i + consumed[1]
            continue
        if ('any',) in row:
            return q, i, True
        return q, i, False
    return q, i, False


def length_le(word, i):
    return sym.length_cmp(word, i, lambda a, b: a <= b)


def emitted_sub_matches(ctx, m, word):
    q, i, matched = emitted_walk(ctx, m, word, 'matches')
    if not matched:
        return False
    if ('any',) in m.trans[q] and not ctx.decide(length_le(word, i)):
        return True
    if 'subword-prefix-accepted' in ctx.dev:
        return True
    return q in m.accepting


def emitted_sub_candidates(ctx, m, prefix):
    q, i, _ = emitted_walk(ctx, m, prefix, 'complete')
    rest = drop(prefix, i)
    head = take(prefix, i)
    by_level = {}
    for key in sorted(m.trans[q], key=repr):
        if key[0] == 'lit':
            if ctx.decide(sym.startswith(key[1], rest)):
                by_level.setdefault(key[3], []).append(concat(head, key[1]))
        elif key[0] == 'cmd':
            for c in ctx.cmd_candidates.get(key[1], []):
                if ctx.decide(sym.startswith(c, rest)):
                    by_level.setdefault(key[3], []).append(concat(head, c))
    for lv in sorted(by_level):
        if by_level[lv]:
            return by_level[lv]
    return []
