"""E3 driver: per (grammar, shell) build the reference automaton, dump the real pipeline's artefacts
and discharge the solver queries of C02 / C03 / C09(i,ii) / C11."""
import random
import subprocess
import tempfile
import os

from . import gram, ref, autosmt
from .autosmt import Stats, Inconclusive
from .ref import Auto, trim, rank_levels, moore_minimise

_cgv = None


def cgv():
    global _cgv
    if _cgv is None:
        from .common import Cgv
        _cgv = Cgv()
    return _cgv


def base_key(inp):
    k = inp['kind']
    if k == 'lit':
        return ('lit', inp['text'], inp['descr'], inp['level'])
    if k == 'cmd':
        return ('cmd', inp['cmd'].strip(), 'stdout', inp['level'])
    if k == 'compadd':
        return ('cmd', inp['cmd'].strip(), 'compadd', inp['level'])
    if k == 'star':
        return ('any',)
    raise KeyError(k)


def describe_key(k):
    if k[0] == 'lit':
        return 'literal %r descr=%r level-rank=%r' % (k[1], k[2], k[3])
    if k[0] == 'cmd':
        return 'command %r (%s) level-rank=%r' % (k[1], k[2], k[3])
    if k[0] == 'sub':
        return 'within-word expression class %r level-rank=%r' % (k[1], k[2])
    return 'any-word'


def strip_level(k):
    return ref.with_level(k, None)


def diff_kind(KA, KR, absA=None, absR=None):
    """Classify the first difference between the item sets expected by implementation (KA) and
    reference (KR) at the point where a distinguishing sequence diverges. absA/absR are the same rows
    with absolute (not ranked) levels: a level difference is attributed to the item kinds whose
    absolute level differs from the `||` branch index the grammar gives them."""
    if KA == KR:
        return 'accept', 'none'
    if absA is not None and {strip_level(k) for k in absA} == {strip_level(k) for k in absR}:
        kinds = set()
        la, lr = {}, {}
        for k in absA:
            la.setdefault(strip_level(k), set()).add(ref.level_of(k))
        for k in absR:
            lr.setdefault(strip_level(k), set()).add(ref.level_of(k))
        for ident in la:
            if la[ident] != lr[ident]:
                kinds.add(ident[0])
        if kinds:
            return 'level', '+'.join(sorted(kinds))
    onlyA = sorted(KA - KR, key=repr)
    onlyR = sorted(KR - KA, key=repr)
    for k in onlyA:
        for k2 in onlyR:
            if k[0] == k2[0] and strip_level(k) == strip_level(k2):
                return 'level', k[0]
    for k in onlyA:
        for k2 in onlyR:
            if k[0] == 'lit' == k2[0] and k[1] == k2[1] and k[3] == k2[3]:
                return 'descr', 'lit'
            if k[0] == 'cmd' == k2[0] and k[1] == k2[1] and k[2] != k2[2]:
                return 'kind', 'cmd'
            if k[0] == 'cmd' == k2[0] and k[1] != k2[1]:
                return 'cmdtext', 'cmd'
    for k in onlyA:
        if k[0] == 'sub' and isinstance(k[1], tuple):
            return 'subword-language', 'sub'
    if onlyA:
        # an item the grammar does not expect here
        for k2 in onlyR:
            if k2[0] == 'any' and onlyA[0][0] == 'cmd':
                return 'any-replaced-by', 'cmd'
        if onlyR and onlyR[0][0] == 'cmd' and onlyA[0][0] == 'any':
            return 'cmd-replaced-by', 'any'
        if onlyR and onlyR[0][0] != onlyA[0][0]:
            return 'replaced:%s' % onlyR[0][0], onlyA[0][0]
        return 'extra', onlyA[0][0]
    return 'missing', onlyR[0][0]


def state_after(auto, seq):
    s = auto.start
    for k in seq:
        if k not in auto.trans[s]:
            return None
        s = auto.trans[s][k]
    return s


def classify_divergence(A, R, seq, Aabs=None, Rabs=None):
    """Walk the common prefix; report where and how the expectations differ."""
    sa, sr = A.start, R.start

    def rows():
        if Aabs is None:
            return None, None
        return set(Aabs.trans[sa]), set(Rabs.trans[sr])

    for i, k in enumerate(seq):
        KA, KR = set(A.trans[sa]), set(R.trans[sr])
        if KA != KR:
            return diff_kind(KA, KR, *rows()), i
        sa, sr = A.trans[sa][k], R.trans[sr][k]
    KA, KR = set(A.trans[sa]), set(R.trans[sr])
    if KA != KR:
        return diff_kind(KA, KR, *rows()), len(seq)
    return ('accept', 'none'), len(seq)


def sub_auto_of_dump(d):
    a, st, det = autosmt.auto_of_dump(d, base_key)
    return rank_levels(trim(a))


def classify_sub(d, resolver, stats):
    """Relate one within-word automaton to the reference's within-word classes (query 1 each)."""
    A = sub_auto_of_dump(d)
    for cid, Rm in enumerate(resolver.sub_autos):
        if A.keys() != Rm.keys():
            continue
        ok, _ = autosmt.bisim(A, Rm, stats, kind='bisim-sub')
        if ok:
            return cid, A
    return None, A


def own_alphabet_auto(d):
    """Automaton over the implementation's own symbols (input ids): what C03 speaks about."""
    st = autosmt.states_of(d)
    idx = {s: i for i, s in enumerate(st)}
    trans = [dict() for _ in st]
    for (f, i, t) in d['transitions']:
        if ('inp', i) in trans[idx[f]]:
            raise Inconclusive('dump is not deterministic over its own symbols')
        trans[idx[f]][('inp', i)] = idx[t]
    return Auto(idx[d['start']], trans, {idx[s] for s in d['accepting']}), st


def check_c03_pair(raw, mn, where, stats, out, text, shell):
    """raw/min: dumps of one automaton before/after minimisation."""
    A_raw, st_raw = own_alphabet_auto(raw)
    A_min, st_min = own_alphabet_auto(mn)
    payload = {'grammar': text, 'shell': shell, 'automaton': where, 'raw': raw, 'min': mn}
    # language preserved (on trimmed automata; trimness is reported separately)
    ok, _ = autosmt.bisim(trim(A_raw), trim(A_min), stats, kind='bisim-rawmin')
    if not ok:
        seq = autosmt.distinguish(trim(A_raw), trim(A_min), stats)
        acc_raw = autosmt.walk(A_raw, seq)[0] if seq is not None else None
        acc_min = autosmt.walk(A_min, seq)[0] if seq is not None else None
        if seq is None or acc_raw == acc_min:
            raise Inconclusive('raw/min inequivalence without a reproducing sequence')
        names = [mn['inputs'][k[1]] for k in seq]
        out.append(('C03', 'language-changed',
                    'minimisation changed the language of the %s automaton: %r is %s before and %s after'
                    % (where, names, 'accepted' if acc_raw else 'rejected', 'accepted' if acc_min else 'rejected'),
                    dict(payload, sequence=names)))
    u = autosmt.unreachable_state(A_min, stats)
    if u is not None:
        out.append(('C03', 'unreachable-state', 'minimised %s automaton has unreachable state %d'
                    % (where, st_min[u]), dict(payload, state=st_min[u])))
    dd = autosmt.dead_state(A_min, stats)
    if dd is not None:
        out.append(('C03', 'dead-state', 'minimised %s automaton has state %d from which acceptance is impossible'
                    % (where, st_min[dd]), dict(payload, state=st_min[dd])))
    T = trim(A_min)
    pair = autosmt.equivalent_pair(T, stats)
    all_acc = len(A_raw.accepting) == A_raw.n
    if pair is not None:
        key = 'not-minimal:all-states-accepting' if all_acc else 'not-minimal'
        out.append(('C03', key, 'minimised %s automaton keeps two states that accept the same continuations'
                    % where, dict(payload, pair=list(pair))))
    # numeric cross-check against Moore's algorithm on the raw automaton
    mm = moore_minimise(A_raw)
    if pair is None and u is None and dd is None and ok and mm.n != A_min.n:
        raise Inconclusive('size cross-check failed: Moore %d states, implementation %d, but the solver '
                           'found no equivalent pair' % (mm.n, A_min.n))
    return A_min.n


def analyse(job):
    """job = (grammar tree dict, shells, props) -> result dict (picklable)."""
    g, shells, props = job
    text = gram.print_grammar(g)
    res = {'text': text, 'violations': [], 'inconclusive': [], 'stats': None, 'rows': []}
    stats = Stats()
    for shell in shells:
        row = {'shell': shell, 'status': None, 'nontrivial': False}
        res['rows'].append(row)
        try:
            try:
                resolver, R0 = ref.reference(g, shell)
            except ref.RefError as e:
                row['status'] = 'outside-reference:%s' % e
                continue
            expected_rej = ref.expected_rejection(resolver, R0)
            d = cgv().dump(shell, text)
            if not d.get('ok'):
                if expected_rej is not None and d.get('error') == expected_rej:
                    row['status'] = 'rejected-as-documented'
                elif d.get('error') in ref.tolerated_rejections(resolver):
                    row['status'] = 'rejected-by-stricter-within-word-rule'
                else:
                    row['status'] = 'unexpected-rejection'
                    res['inconclusive'].append('complgen rejected a clean-by-construction grammar (%s/%s) for %s: %r'
                                               % (d.get('stage'), d.get('error'), shell, text))
                continue
            if d.get('ambiguity'):
                if expected_rej is not None and d['ambiguity'] == expected_rej:
                    row['status'] = 'rejected-as-documented'
                else:
                    row['status'] = 'unexpected-rejection'
                    res['inconclusive'].append('complgen rejected a clean-by-construction grammar (ambiguity/%s) for %s: %r'
                                               % (d['ambiguity'], shell, text))
                continue
            if expected_rej is not None:
                row['status'] = 'accepted-though-rejection-documented'
                continue
            row['status'] = 'ok'
            mn = d['min']
            row['min_states'] = len(autosmt.states_of(mn))
            row['nontrivial'] = row['min_states'] >= 3 or bool(mn['subdfas'])
            R = rank_levels(R0)
            row['ref_states'] = R.n

            if 'C02' in props or 'C11' in props or 'C09' in props:
                # within-word automata -> reference classes
                subclass = {}
                for j, sd in enumerate(mn['subdfas']):
                    cid, _ = classify_sub(sd, resolver, stats)
                    subclass[j] = cid if cid is not None else ('unmatched', j)
                if 'C02' in props:
                    cls_of = {}
                    for i, sa in enumerate(d['subautomata']):
                        if sa is None:
                            continue
                        c_raw, _ = classify_sub(sa['raw'], resolver, stats)
                        c_min, _ = classify_sub(sa['min'], resolver, stats)
                        cls_of[i] = c_min
                        if c_raw is None or c_min is None or c_raw != c_min:
                            res['violations'].append((
                                'C02', 'subword-language:sub',
                                'within-word automaton %d (raw class %r, minimised class %r) does not denote any '
                                'within-word expression of the grammar' % (i, c_raw, c_min),
                                {'grammar': text, 'shell': shell, 'subautomaton': sa}))

                if 'C02' in props:
                    # the compiler merges within-word automata that its own `==` calls equal (DFAInternPool, a hash set:
                    # whether two equal ones really meet depends on the per-process hash seed); `==` must imply equal languages
                    for (i, j) in d.get('subautomata_eq', []):
                        if cls_of.get(i) is not None and cls_of.get(j) is not None and cls_of[i] != cls_of[j]:
                            res['violations'].append((
                                'C02', 'intern-equality-unsound',
                                'the compiler\'s equality on automata (by which within-word automata are merged) calls within-word automata %d and %d '
                                'equal although they accept different words (reference classes %r and %r)' % (i, j, cls_of[i], cls_of[j]),
                                {'grammar': text, 'shell': shell, 'a': d['subautomata'][i]['min'], 'b': d['subautomata'][j]['min']}))

                def keyfn(inp):
                    if inp['kind'] == 'sub':
                        return ('sub', subclass[inp['dfa']], inp['level'])
                    return base_key(inp)

                for stage in ('raw', 'min'):
                    if 'C02' not in props and stage == 'raw':
                        continue
                    A0, st, det = autosmt.auto_of_dump(d[stage], keyfn)
                    Aabs = trim(A0)
                    A = rank_levels(Aabs)
                    ok, rel = autosmt.bisim(A, R, stats, kind='bisim-top')
                    row['bisim_%s' % stage] = ok
                    if ok:
                        row['relation_size'] = len(rel)
                        continue
                    seq = autosmt.distinguish(A, R, stats)
                    if seq is None:
                        raise Inconclusive('no bisimulation and no distinguishing sequence')
                    accA, nA = autosmt.walk(A, seq)
                    accR, nR = autosmt.walk(R, seq)
                    if accA == accR:
                        raise Inconclusive('distinguishing sequence does not reproduce on the explicit walk')
                    (dk, ik), where = classify_divergence(A, R, seq, Aabs, R0)
                    what = ('%s automaton for %s %s the item sequence %s which the grammar %s (first difference after %d items: %s on %s)'
                            % (stage, shell, 'accepts' if accA else 'rejects',
                               [describe_key(k) for k in seq], 'accepts' if accR else 'rejects',
                               where, dk, ik))
                    prop = 'C02'
                    if 'C11' in props and 'C02' not in props:
                        prop = 'C11'
                    res['violations'].append((prop, '%s:%s' % (dk, ik), what,
                                              {'grammar': text, 'shell': shell, 'stage': stage,
                                               'sequence': [list(map(str, k)) for k in seq],
                                               'impl_accepts': accA, 'ref_accepts': accR}))
            if 'C03' in props:
                check_c03_pair(d['raw'], d['min'], 'main', stats, res['violations'], text, shell)
                for i, sa in enumerate(d['subautomata']):
                    if sa is not None:
                        check_c03_pair(sa['raw'], sa['min'], 'within-word #%d' % i, stats,
                                       res['violations'], text, shell)
                # the within-word automata the compiled automaton really carries (what the scripts are made from): each is
                # the minimised form of one of the within-word expressions' automata -- same language, minimal
                raws = []
                for i, sa in enumerate(d['subautomata']):
                    if sa is not None:
                        a0, _, _ = autosmt.auto_of_dump(sa['raw'], base_key)
                        raws.append((i, trim(a0)))
                for j, sd in enumerate(d['min']['subdfas']):
                    s0, _, _ = autosmt.auto_of_dump(sd, base_key)
                    S = trim(s0)
                    match = None
                    for (i, R_i) in raws:
                        if S.keys() == R_i.keys() and autosmt.bisim(S, R_i, stats, kind='bisim-stored-sub')[0]:
                            match = i
                            break
                    if match is None:
                        res['violations'].append((
                            'C03', 'stored-within-word-automaton-differs',
                            'within-word automaton %d carried by the minimised automaton for %s accepts a language that none of the '
                            'within-word expressions\' automata (before minimisation) accepts' % (j, shell),
                            {'grammar': text, 'shell': shell, 'stored': sd}))
                    else:
                        # (the two dumps number their inputs independently: compared over item keys, not input ids)
                        payload = {'grammar': text, 'shell': shell, 'automaton': 'stored within-word #%d' % j, 'stored': sd}
                        u = autosmt.unreachable_state(s0, stats)
                        if u is not None:
                            res['violations'].append(('C03', 'unreachable-state', 'stored within-word automaton %d has an unreachable state' % j, payload))
                        dd = autosmt.dead_state(s0, stats)
                        if dd is not None:
                            res['violations'].append(('C03', 'dead-state', 'stored within-word automaton %d has a state from which acceptance is impossible' % j, payload))
                        pair = autosmt.equivalent_pair(S, stats)
                        if pair is not None:
                            res['violations'].append(('C03', 'not-minimal', 'stored within-word automaton %d keeps two states that accept the same continuations' % j,
                                                      dict(payload, pair=list(pair))))
        except Inconclusive as e:
            row['status'] = 'inconclusive'
            res['inconclusive'].append('%s [%s] %r' % (e, shell, text))
        except autosmt.z3.Z3Exception as e:
            row['status'] = 'inconclusive'
            res['inconclusive'].append('z3: %s [%s] %r' % (e, shell, text))
    res['stats'] = (stats.queries, stats.solver_s)
    return res


# ---------------------------------------------------------------------------------------------
# C09: word-level overlap (query 5) and `||` -> `|` level-erased equivalence

def z3_regex_of(r, cmd_marks):
    """Reference within-word expression -> z3 regex over strings. A command stands for an opaque
    marker (its candidates are not known at compile time), a placeholder for any string."""
    z3 = autosmt.z3
    k = r[0]
    if k == 'eps':
        return z3.Re(z3.StringVal(''))
    if k == 'empty':
        return z3.Empty(z3.ReSort(z3.StringSort()))
    if k == 'item':
        key = r[1]
        if key[0] == 'lit':
            return z3.Re(z3.StringVal(key[1]))
        if key[0] == 'cmd':
            m = cmd_marks.setdefault((key[1], key[2]), len(cmd_marks))
            return z3.Re(z3.StringVal('\x01%d\x01' % m))
        if key[0] == 'any':
            return z3.Full(z3.ReSort(z3.StringSort()))
        raise KeyError(key)
    if k == 'cat':
        return z3.Concat(z3_regex_of(r[1], cmd_marks), z3_regex_of(r[2], cmd_marks))
    if k == 'alt':
        parts = [z3_regex_of(x, cmd_marks) for x in r[1]]
        out = parts[0]
        for p in parts[1:]:
            out = z3.Union(out, p)
        return out
    if k == 'star':
        return z3.Star(z3_regex_of(r[1], cmd_marks))
    raise KeyError(k)


def same_word_language(r1, r2, stats):
    """query 5: is there a string accepted by exactly one of the two within-word expressions?
    unsat => the two expressions accept exactly the same words (unbounded word length)."""
    z3 = autosmt.z3
    marks = {}
    R1, R2 = z3_regex_of(r1, marks), z3_regex_of(r2, marks)
    w = z3.String('w')
    s = z3.Solver()
    s.add(z3.InRe(w, z3.Union(z3.Intersect(R1, z3.Complement(R2)), z3.Intersect(R2, z3.Complement(R1)))))
    differ = autosmt._check(s, 'word-xor', stats)
    return not differ


def erase_key(k, subclass_erased=None):
    if k[0] == 'lit':
        return ('lit', k[1])
    if k[0] == 'cmd':
        return ('cmd', k[1], k[2])
    if k[0] == 'sub':
        return ('sub', k[1])
    return k


def fb_to_alt(n):
    k = n[0]
    if k == 'fb':
        return ('alt', tuple(fb_to_alt(c) for c in n[1]))
    if k in ('seq', 'alt', 'sub'):
        return (k, tuple(fb_to_alt(c) for c in n[1]))
    if k in ('opt', 'many'):
        return (k, fb_to_alt(n[1]))
    if k == 'descr':
        return (k, fb_to_alt(n[1]), n[2])
    return n


def grammar_fb_to_alt(g):
    return {'command': g['command'], 'variants': [fb_to_alt(v) for v in g['variants']],
            'defs': [(n, sh, fb_to_alt(e)) for (n, sh, e) in g['defs']]}


def erased_sub_auto(d):
    st, start, trans, acc = autosmt.nfa_of_dump(d, lambda inp: erase_key(base_key(inp)))
    a, _ = autosmt.determinise(start, trans, acc)
    return trim(a)


def analyse_c09(job):
    g, shells = job
    text = gram.print_grammar(g)
    g2 = grammar_fb_to_alt(g)
    text2 = gram.print_grammar(g2)
    res = {'text': text, 'violations': [], 'inconclusive': [], 'stats': None, 'rows': []}
    stats = Stats()
    for shell in shells:
        row = {'shell': shell, 'status': None, 'nontrivial': False, 'pairs_checked': 0}
        res['rows'].append(row)
        try:
            try:
                resolver, R0 = ref.reference(g, shell)
            except ref.RefError as e:
                row['status'] = 'outside-reference:%s' % e
                continue
            d = cgv().dump(shell, text)
            part_i_only = False
            if ref.expected_rejection(resolver, R0) is not None:
                if not d.get('ok') or d.get('ambiguity'):
                    row['status'] = 'rejected-as-documented'
                    continue
                # accepted although the documentation says such a grammar is rejected (that is C08's subject, not claimed):
                # it is an accepted grammar, so what C09 says about every point of it must hold; the `|` twin is still rejected
                part_i_only = True
                d2 = d
            else:
                d2 = cgv().dump(shell, text2)
            if (not d.get('ok') and d.get('error') in ref.tolerated_rejections(resolver)):
                row['status'] = 'rejected-by-stricter-within-word-rule'
                continue
            if not d.get('ok') or d.get('ambiguity') or not d2.get('ok') or d2.get('ambiguity'):
                row['status'] = 'unexpected-rejection'
                res['inconclusive'].append('complgen rejected a clean-by-construction grammar: %r' % text)
                continue
            row['status'] = 'ok'
            mn = d['min']
            row['min_states'] = len(autosmt.states_of(mn))
            row['nontrivial'] = row['min_states'] >= 3 or bool(mn['subdfas'])
            # (i) per state: two outgoing items that accept a common word and differ in target
            subclass = {}
            for j, sd in enumerate(mn['subdfas']):
                cid, _ = classify_sub(sd, resolver, stats)
                subclass[j] = cid
            by_state = {}
            for (f, i, t) in mn['transitions']:
                by_state.setdefault(f, []).append((i, t))
            for f, outs in sorted(by_state.items()):
                for a in range(len(outs)):
                    for b in range(a + 1, len(outs)):
                        (i1, t1), (i2, t2) = outs[a], outs[b]
                        if t1 == t2:
                            continue
                        x, y = mn['inputs'][i1], mn['inputs'][i2]
                        same = (x['kind'] == y['kind'] and
                                {k: v for k, v in x.items() if k not in ('level', 'descr')} ==
                                {k: v for k, v in y.items() if k not in ('level', 'descr')})
                        if same and x['kind'] != 'star':
                            row['pairs_checked'] += 1
                            what = x.get('text', x.get('cmd', 'within-word automaton %s' % x.get('dfa')))
                            res['violations'].append((
                                'C09', 'same-%s-two-targets' % {'lit': 'literal', 'cmd': 'command', 'compadd': 'command', 'sub': 'subword'}[x['kind']],
                                'state %d of the minimised automaton for %s expects %s %r twice (levels %d and %d) '
                                'with different continuations (states %d and %d)' % (f, shell, x['kind'], what, x['level'], y['level'], t1, t2),
                                {'grammar': text, 'shell': shell, 'state': f, 'item': what, 'min': mn}))
                        elif x['kind'] == 'sub' and y['kind'] == 'sub':
                            c1, c2 = subclass.get(x['dfa']), subclass.get(y['dfa'])
                            if c1 is None or c2 is None:
                                raise Inconclusive('within-word automaton without a reference class (see C02)')
                            row['pairs_checked'] += 1
                            if c1 == c2 or same_word_language(resolver.sub_exprs[c1], resolver.sub_exprs[c2], stats):
                                import json as _json
                                identical = (_json.dumps(mn['subdfas'][x['dfa']], sort_keys=True) ==
                                             _json.dumps(mn['subdfas'][y['dfa']], sort_keys=True))
                                res['violations'].append((
                                    'C09', 'identical-subwords-two-targets' if identical else 'equal-subwords-two-targets',
                                    'state %d of the minimised automaton for %s has two within-word items that accept exactly the '
                                    'same words but lead to different states (%d and %d)' % (f, shell, t1, t2),
                                    {'grammar': text, 'shell': shell, 'state': f, 'min': mn}))
            if part_i_only:
                row['status'] = 'accepted-though-rejection-documented'
                continue
            # (ii) level-erased equivalence of G and G[|| := |], automata treated as NFAs
            subs = [erased_sub_auto(sd) for sd in d['min']['subdfas']]
            subs2 = [erased_sub_auto(sd) for sd in d2['min']['subdfas']]
            classes = []   # representatives
            def cls(a):
                for ci, rep in enumerate(classes):
                    if a.keys() == rep.keys() and autosmt.bisim(a, rep, stats, kind='bisim-erased-sub')[0]:
                        return ci
                classes.append(a)
                return len(classes) - 1
            m1 = {j: cls(a) for j, a in enumerate(subs)}
            m2 = {j: cls(a) for j, a in enumerate(subs2)}

            def mk(dd, mm):
                def keyfn(inp):
                    if inp['kind'] == 'sub':
                        return ('sub', mm[inp['dfa']])
                    return erase_key(base_key(inp))
                st, start, trans, acc = autosmt.nfa_of_dump(dd['min'], keyfn)
                a, _ = autosmt.determinise(start, trans, acc)
                return trim(a)
            A1, A2 = mk(d, m1), mk(d2, m2)
            ok, _ = autosmt.bisim(A1, A2, stats, kind='bisim-erased')
            row['erased_equiv'] = ok
            if not ok:
                seq = autosmt.distinguish(A1, A2, stats)
                if seq is None or autosmt.walk(A1, seq)[0] == autosmt.walk(A2, seq)[0]:
                    raise Inconclusive('level-erased inequivalence without a reproducing sequence')
                res['violations'].append((
                    'C09', 'fallback-changes-matching',
                    'replacing || by | changes what is matched for %s: item sequence %r is %s with || and %s with |'
                    % (shell, seq, 'accepted' if autosmt.walk(A1, seq)[0] else 'rejected',
                       'accepted' if autosmt.walk(A2, seq)[0] else 'rejected'),
                    {'grammar': text, 'grammar_alt': text2, 'shell': shell, 'sequence': [list(map(str, k)) for k in seq]}))
        except Inconclusive as e:
            row['status'] = 'inconclusive'
            res['inconclusive'].append('%s [%s] %r' % (e, shell, text))
    res['stats'] = (stats.queries, stats.solver_s)
    return res
