"""E1 checks: the escaping kernels (MIR -> SMT) against the shells' string readers."""
import itertools
import random
import subprocess
import time

import z3

from . import common, mirsym, quoting
from .errors import Inconclusive

SPECIAL = ['"', '\\', '$', '`', '!', '*', '?', '~', '#', '&', '[', ']', '{', '}', '(', ')', '<', '>', '|', ';', '.',
           "'", ' ', '\n', '\r', '\t', 'a', 'n', '0', 'u', '=', ':']


def validation_pool(seed, count=300):
    rnd = random.Random(seed)
    pool = ['']
    pool += SPECIAL
    pool += [a + b for a in SPECIAL[:12] for b in SPECIAL[:12]]
    while len(pool) < count:
        n = rnd.randint(1, 6)
        pool.append(''.join(rnd.choice(SPECIAL) for _ in range(n)))
    return pool[:max(count, len(pool))]


def validate_translator(cgv, texts, seed):
    """real function (through the verif re-export) vs the MIR interpreter in concrete mode"""
    n = 0
    for s in validation_pool(seed):
        real = cgv.strconst(s)
        for name, text in texts.items():
            mine, _ = mirsym.escape_concrete(text, s.encode())
            if mine.decode() != real[name]:
                raise Inconclusive('encoder drift: %s(%r): MIR interpreter %r, real function %r' % (name, s, mine.decode(), real[name]))
            n += 1
    return n


def solve_kernel(text, lang, N, stats, require='roundtrip'):
    """-> (holds: bool, counterexample str|None, models used)"""
    s = [z3.BitVec('s%d' % i, 8) for i in range(N)]
    n = z3.BitVec('n', 8)
    solver = z3.Solver()
    solver.set('timeout', 120000)
    solver.add(z3.ULE(n, N))
    for b in s:
        solver.add(z3.UGE(b, 1), z3.ULE(b, 127))
    cells = [(z3.ULT(z3.BitVecVal(i, 8), n), s[i]) for i in range(N)]
    out_cells, models = mirsym.escape_symbolic(text, cells)
    ok, expands, emis = quoting.symbolic_decode(lang, out_cells)
    good = z3.And(ok, z3.Not(expands), quoting.equals_input(emis, s, n, 16)) if require == 'roundtrip' else ok
    # vacuity twin: the assertion is reachable with a non-empty input that really needs escaping
    t0 = time.time()
    r = solver.check(z3.And(good, z3.UGE(n, 1), z3.Or([b == quoting.Q for b in s[:1]])))
    stats.note('e1-vacuity', str(r), time.time() - t0)
    if r != z3.sat:
        raise Inconclusive('vacuity witness failed for %s (%s): escaping a quote cannot succeed?' % (lang, r))
    t0 = time.time()
    r = solver.check(z3.Not(good))
    stats.note('e1-roundtrip', str(r), time.time() - t0)
    if r == z3.unknown:
        raise Inconclusive('solver unknown on %s kernel' % lang)
    if r == z3.unsat:
        return True, None, models, len(out_cells)
    m = solver.model()
    ln = m.eval(n, model_completion=True).as_long()
    cex = ''.join(chr(m.eval(s[i], model_completion=True).as_long()) for i in range(ln))
    return False, cex, models, len(out_cells)


def violates(lang, s, constant):
    ok, expands, dec = quoting.decode(lang, constant.encode())
    if not ok:
        return 'unterminated-or-split'
    if expands:
        return 'live-expansion'
    if dec != s.encode():
        return 'text-altered'
    return None


def minimise(cgv, field, lang, s):
    cur = s
    changed = True
    while changed:
        changed = False
        for i in range(len(cur)):
            cand = cur[:i] + cur[i + 1:]
            if violates(lang, cand, cgv.strconst(cand)[field]):
                cur = cand
                changed = True
                break
    return cur


def bash_eval(constant):
    """what the real bash reads back from the constant"""
    script = 'x=%s\nprintf "%%s" "$x"\n' % constant
    p = subprocess.run(['bash', '--noprofile', '--norc', '-c', script], stdout=subprocess.PIPE,
                       stderr=subprocess.PIPE, timeout=20)
    return p.returncode, p.stdout, p.stderr.decode(errors='replace')
