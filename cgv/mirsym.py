"""E1: from the nightly compiler's MIR of the string-escaping kernels to SMT (QF_BV).

The MIR text of the named functions is regenerated from /repo's working tree on every run
(scratch copy, `cargo +nightly rustc -- -Zunpretty=mir`), parsed, and executed by a small abstract
interpreter for the straight-line fragment those kernels use:
    const "..." / const b"..." / &_x / (move _x,) / [move _x] / field copies
    str::<impl str>::replace::<char>(s, const 'c', "rep")
    <String as Deref>::deref, Argument::new_display::<String|&str>, Arguments::new::<N,K>(template, args)
    std::fmt::format, must_use, drop, return
Anything else -> Unsupported (the check is inconclusive, never a pass).

Two value domains run through the same interpreter: concrete (Python bytes; validated against the
real function) and symbolic (list of guarded 8-bit cells over N input bytes).
"""
import os
import re
import shutil
import subprocess

import z3

from . import common
from .errors import Inconclusive

VENDOR = os.path.join(common.VERIF, 'vendor')
MIR_TARGET = os.path.join(common.BUILD, 'mir')
import hashlib
SCRATCH = '/var/tmp/cgv-mir-%d-%s' % (os.getuid(), hashlib.sha1(common.VERIF.encode()).hexdigest()[:8])


class Unsupported(Inconclusive):
    pass


def dump_mir():
    """-> MIR text of the complgen library built from /repo's current working tree"""
    import fcntl
    os.makedirs(common.BUILD, exist_ok=True)
    lock = open(os.path.join(common.BUILD, '.mirlock'), 'w')
    fcntl.flock(lock, fcntl.LOCK_EX)     # one dump at a time per copy of /verif (the scratch path is shared)
    os.makedirs(SCRATCH, exist_ok=True)
    try:
        subprocess.run(['rsync', '-a', '--delete', '--exclude', 'target', '--exclude', '.git', '--exclude', 'e2e',
                        common.REPO + '/', SCRATCH + '/'], check=True)
        # cargo only prints MIR when it actually compiles the crate
        os.utime(os.path.join(SCRATCH, 'src', 'lib.rs'))
        env = common.env_offline()
        env['CARGO_TARGET_DIR'] = MIR_TARGET
        cmd = ['cargo', '+nightly', 'rustc', '--offline', '--lib']
        for key, path, pkg in (('ahash_076', 'ahash-0.7.6', 'ahash'), ('ahash_083', 'ahash-0.8.3', 'ahash'),
                               ('proc-macro2', 'proc-macro2-1.0.55', None)):
            cmd += ['--config', 'patch.crates-io.%s.path="%s"' % (key, os.path.join(VENDOR, path))]
            if pkg:
                cmd += ['--config', 'patch.crates-io.%s.package="%s"' % (key, pkg)]
        cmd += ['--', '-Zunpretty=mir', '-C', 'debug-assertions=off']
        p = subprocess.run(cmd, cwd=SCRATCH, env=env, stdout=subprocess.PIPE, stderr=subprocess.PIPE, text=True)
        if p.returncode != 0 or 'fn ' not in p.stdout:
            raise Inconclusive('MIR dump failed: %s' % p.stderr[-1500:])
        return p.stdout
    finally:
        shutil.rmtree(SCRATCH, ignore_errors=True)
        fcntl.flock(lock, fcntl.LOCK_UN)
        lock.close()


def function_text(mir, name):
    m = re.search(r'^fn %s\(.*?^}\n' % re.escape(name), mir, re.S | re.M)
    if not m:
        raise Unsupported('function %s not found in the MIR dump (renamed or inlined?)' % name)
    return m.group(0)


def unescape(s, is_bytes=False):
    out = bytearray()
    i = 0
    while i < len(s):
        c = s[i]
        if c == '\\':
            n = s[i + 1]
            if n == 'x':
                out.append(int(s[i + 2:i + 4], 16))
                i += 4
            elif n == 'u':
                j = s.index('}', i)
                out.extend(chr(int(s[i + 3:j], 16)).encode())
                i = j + 1
            else:
                out.extend({'n': b'\n', 't': b'\t', 'r': b'\r', '0': b'\0', '\\': b'\\', '"': b'"', "'": b"'"}[n])
                i += 2
        else:
            out.extend(c.encode())
            i += 1
    return bytes(out)


def parse_function(text):
    """-> dict bb -> list of statements (strings), in order"""
    blocks = {}
    cur = None
    for line in text.split('\n'):
        m = re.match(r'\s*(bb\d+)( \(cleanup\))?: \{', line)
        if m:
            cur = m.group(1)
            blocks[cur] = []
            continue
        if cur is not None:
            st = line.strip()
            if st == '}':
                cur = None
            elif st:
                blocks[cur].append(st)
    return blocks


OPERAND = r'(?:copy|move) (_\d+)'


class Interp:
    """Abstract interpreter; `dom` supplies: const(bytes), replace(v, ch, rep_bytes), concat(list)"""

    def __init__(self, dom):
        self.dom = dom
        self.models = set()

    def run(self, text, arg):
        self.blocks = parse_function(text)
        self.steps = 0
        return self.run_from('bb0', {'_1': ('str', arg)})

    def run_from(self, bb, env):
        """straight-line blocks; a switchInt on a bool forks when the bool is symbolic: both arms are run to their return
        and the results are joined as guarded cells"""
        blocks = self.blocks
        while True:
            self.steps += 1
            if self.steps > 400:
                raise Unsupported('control flow too long (loop?)')
            nxt = None
            for st in blocks[bb]:
                m = re.match(r'switchInt\((?:move|copy) (_\d+)\) -> \[0: (bb\d+), otherwise: (bb\d+)\];', st)
                if m:
                    c = env.get(m.group(1))
                    if c is None or c[0] != 'bool':
                        raise Unsupported('switchInt on a non-bool value')
                    if c[1] is True or c[1] is False:
                        nxt = m.group(3) if c[1] else m.group(2)
                        break
                    self.models.add('switchInt on a symbolic bool: both arms executed, results joined under the condition')
                    r_true = self.run_from(m.group(3), dict(env))
                    r_false = self.run_from(m.group(2), dict(env))
                    return self.dom.join(c[1], r_true, r_false)
                r = self.stmt(st, env)
                if r == 'return':
                    if '_0' not in env:
                        raise Unsupported('no return value')
                    return self.as_str(env['_0'])
                if r is not None:
                    nxt = r
            if nxt is None:
                raise Unsupported('block %s falls through' % bb)
            bb = nxt

    def as_str(self, v):
        if v[0] in ('str', 'string'):
            return v[1]
        if v[0] == 'ref':
            return self.as_str(v[1])
        raise Unsupported('expected a string value, got %s' % v[0])

    def operand(self, tok, env):
        tok = tok.strip()
        m = re.fullmatch(OPERAND, tok)
        if m:
            if m.group(1) not in env:
                raise Unsupported('use of unknown local %s' % m.group(1))
            return env[m.group(1)]
        m = re.fullmatch(r'const "(.*)"', tok, re.S)
        if m:
            return ('str', self.dom.const(unescape(m.group(1))))
        m = re.fullmatch(r"const '(.*)'", tok, re.S)
        if m:
            b = unescape(m.group(1))
            if len(b) != 1:
                raise Unsupported('non-ASCII char constant %r' % tok)
            return ('char', b[0])
        m = re.fullmatch(r'const b"(.*)"', tok, re.S)
        if m:
            return ('bytes', unescape(m.group(1)))
        raise Unsupported('operand %r' % tok)

    def stmt(self, st, env):
        if st == 'return;':
            return 'return'
        if st.startswith('StorageLive') or st.startswith('StorageDead') or st.startswith('nop') or st.startswith('FakeRead') \
                or st.startswith('PlaceMention') or st.startswith('AscribeUserType') or st.startswith('Retag'):
            return None
        m = re.match(r'drop\(_\d+\) -> \[return: (bb\d+)', st)
        if m:
            return m.group(1)
        m = re.match(r'goto -> (bb\d+);', st)
        if m:
            return m.group(1)
        m = re.match(r'(_\d+) = (.*?)( -> \[return: (bb\d+).*)?;?$', st, re.S)
        if not m:
            raise Unsupported('statement %r' % st)
        dst, rhs, _, ret = m.group(1), m.group(2).rstrip(';'), m.group(3), m.group(4)
        env[dst] = self.rvalue(rhs.strip(), env)
        return ret

    def split_args(self, s):
        args = []
        depth = 0
        cur = []
        inq = None
        i = 0
        while i < len(s):
            c = s[i]
            if inq:
                cur.append(c)
                if c == '\\':
                    cur.append(s[i + 1])
                    i += 1
                elif c == inq:
                    inq = None
            elif c in '"\'':
                # a char/str literal (lifetimes like '_ do not occur in argument position)
                inq = c
                cur.append(c)
            elif c in '([<':
                depth += 1
                cur.append(c)
            elif c in ')]>':
                depth -= 1
                cur.append(c)
            elif c == ',' and depth == 0:
                args.append(''.join(cur).strip())
                cur = []
            else:
                cur.append(c)
            i += 1
        if ''.join(cur).strip():
            args.append(''.join(cur).strip())
        return args

    def rvalue(self, rhs, env):
        # call?
        m = re.match(r'^(.*?)\((.*)\)$', rhs, re.S)
        if m and not rhs.startswith('(') and not rhs.startswith('const') and not rhs.startswith('copy') \
                and not rhs.startswith('move') and not rhs.startswith('no_retag') and not rhs.startswith('Not('):
            fn, argtxt = m.group(1).strip(), m.group(2)
            args = self.split_args(argtxt)
            return self.call(fn, args, env)
        if rhs.startswith('&'):
            inner = rhs[1:].strip()
            if inner.startswith('mut '):
                raise Unsupported('mutable borrow')
            if re.fullmatch(r'_\d+', inner):
                return ('ref', env[inner])
            raise Unsupported('borrow of %r' % inner)
        m = re.fullmatch(r'\((.*),\)', rhs)
        if m:
            return ('tuple', [self.operand(a, env) for a in self.split_args(m.group(1))])
        m = re.fullmatch(r'\[(.*)\]', rhs)
        if m:
            return ('array', [self.operand(a, env) for a in self.split_args(m.group(1))])
        m = re.fullmatch(r'(?:no_retag )?(?:copy|move) \((_\d+)\.(\d+): [^)]*\)', rhs)
        if m:
            t = env[m.group(1)]
            if t[0] != 'tuple':
                raise Unsupported('field of non-tuple')
            return t[1][int(m.group(2))]
        m = re.fullmatch(r'Not\((?:move|copy) (_\d+)\)', rhs)
        if m:
            v = env[m.group(1)]
            if v[0] != 'bool':
                raise Unsupported('Not of a non-bool')
            return ('bool', self.dom.not_(v[1]))
        return self.operand(rhs, env)

    def call(self, fn, args, env):
        vals = [self.operand(a, env) for a in args]
        if fn == 'str::<impl str>::replace::<char>':
            self.models.add('str::replace::<char>(s, c, rep): left-to-right, non-overlapping, c ASCII')
            s, c, rep = vals
            if c[0] != 'char':
                raise Unsupported('replace pattern is not a char constant')
            return ('string', self.dom.replace(self.as_str(s), c[1], self.dom.as_const(self.as_str(rep))))
        m = re.fullmatch(r'core::str::<impl str>::contains::<(?:\[char; \d+\]|char)>', fn)
        if m:
            self.models.add('str::contains::<char | [char; N]>(s, pattern): some byte of s is one of the ASCII pattern characters')
            s_, pat = vals
            if pat[0] == 'char':
                chars = [pat[1]]
            elif pat[0] == 'array' and all(x[0] == 'char' for x in pat[1]):
                chars = [x[1] for x in pat[1]]
            else:
                raise Unsupported('contains pattern is not a constant char / array of chars')
            return ('bool', self.dom.contains(self.as_str(s_), chars))
        if fn == '<String as Deref>::deref':
            self.models.add('<String as Deref>::deref: identity on the text')
            return ('str', self.as_str(vals[0]))
        m = re.match(r"core::fmt::rt::Argument::<'_>::new_display::<(.*)>$", fn)
        if m:
            if m.group(1) not in ('String', '&str', 'str'):
                raise Unsupported('Display argument of type %s' % m.group(1))
            self.models.add('Argument::new_display::<String|&str>: the text itself')
            return ('arg', self.as_str(vals[0]))
        m = re.match(r"Arguments::<'_>::new::<(\d+), (\d+)>$", fn)
        if m:
            self.models.add('Arguments::new::<N,K>: byte-coded template (0x01-0x7f literal run, 0xC0 next argument, 0x00 end)')
            tpl, arr = vals
            if tpl[0] != 'bytes':
                raise Unsupported('template is not a byte-string constant')
            a = arr
            while a[0] == 'ref':
                a = a[1]
            if a[0] != 'array':
                raise Unsupported('format arguments are not an array')
            return ('fmtargs', tpl[1], [x[1] for x in a[1]])
        if fn in ('std::fmt::format', 'alloc::fmt::format'):
            self.models.add('fmt::format: concatenation of the template pieces and arguments')
            f = vals[0]
            if f[0] != 'fmtargs':
                raise Unsupported('format of non-Arguments')
            return ('string', self.dom.concat(self.render(f[1], f[2])))
        if fn.startswith('must_use::<'):
            return vals[0]
        raise Unsupported('call to %s' % fn)

    def render(self, tpl, args):
        out = []
        i = 0
        ai = 0
        while True:
            if i >= len(tpl):
                raise Unsupported('template without terminator')
            b = tpl[i]
            if b == 0:
                break
            if 1 <= b <= 0x7f:
                out.append(self.dom.const(tpl[i + 1:i + 1 + b]))
                i += 1 + b
            elif b == 0xC0:
                if ai >= len(args):
                    raise Unsupported('template refers to a missing argument')
                out.append(args[ai])
                ai += 1
                i += 1
            else:
                raise Unsupported('template opcode 0x%02x' % b)
        return out


class Concrete:
    def const(self, b):
        return bytes(b)

    def contains(self, s, chars):
        return any(c in s for c in chars)

    def not_(self, b):
        return not b

    def join(self, cond, a, b):
        return a if cond else b

    def as_const(self, v):
        return v

    def replace(self, s, ch, rep):
        return s.replace(bytes([ch]), rep)

    def concat(self, xs):
        return b''.join(xs)


class Symbolic:
    """value = list of cells (guard, byte) -- guard: z3 Bool or True; byte: z3 BV8 or int"""

    def const(self, b):
        return [(True, x) for x in b]

    def contains(self, s, chars):
        alts = []
        for (g, b) in s:
            if isinstance(b, int):
                if b in chars:
                    if g is True:
                        return True
                    alts.append(g)
            else:
                alts.append(and_(g, z3.Or([b == c for c in chars])))
        return z3.Or(alts) if alts else False

    def not_(self, b):
        return (not b) if isinstance(b, bool) else z3.Not(b)

    def join(self, cond, a, b):
        return [(and_(g, cond), x) for (g, x) in a] + [(and_(g, z3.Not(cond)), x) for (g, x) in b]

    def as_const(self, v):
        if any(g is not True or not isinstance(x, int) for g, x in v):
            raise Unsupported('replacement text is not constant')
        return bytes(x for _, x in v)

    def replace(self, s, ch, rep):
        out = []
        for (g, b) in s:
            if isinstance(b, int):
                if b == ch:
                    out.extend((g, r) for r in rep)
                else:
                    out.append((g, b))
                continue
            hit = b == ch
            for r in rep:
                out.append((and_(g, hit), r))
            out.append((and_(g, z3.Not(hit)), b))
        return out

    def concat(self, xs):
        out = []
        for x in xs:
            out.extend(x)
        return out


def and_(a, b):
    if a is True:
        return b
    if b is True:
        return a
    return z3.And(a, b)


def escape_concrete(text, s_bytes):
    it = Interp(Concrete())
    return it.run(text, s_bytes), it.models


def escape_symbolic(text, cells):
    it = Interp(Symbolic())
    return it.run(text, cells), it.models
