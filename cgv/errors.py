class Inconclusive(Exception):
    """Raised when a check can neither pass nor report a violation (solver unknown, unsupported
    construct, encoder drift, ...). Mapped to exit code 2; never to success."""
