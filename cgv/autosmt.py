"""E3: SAT/SMT queries over the automata the real pipeline produced (dumped by cgv) and the
reference automaton. Every verdict here is a z3 verdict; the Python around it only builds the
formulas and re-validates models.
"""
import time

import z3

from .ref import Auto, trim
from .errors import Inconclusive


class Stats:
    def __init__(self):
        self.queries = {}
        self.solver_s = 0.0

    def note(self, kind, verdict, dt):
        k = '%s:%s' % (kind, verdict)
        self.queries[k] = self.queries.get(k, 0) + 1
        self.solver_s += dt

    def total(self):
        return sum(self.queries.values())

    def merge(self, other):
        for k, v in other.queries.items():
            self.queries[k] = self.queries.get(k, 0) + v
        self.solver_s += other.solver_s


def _check(s, kind, stats, timeout_ms=20000):
    s.set('timeout', timeout_ms)
    t0 = time.time()
    r = s.check()
    dt = time.time() - t0
    v = str(r)
    stats.note(kind, v, dt)
    if r == z3.unknown:
        raise Inconclusive('%s: solver returned unknown (%s)' % (kind, s.reason_unknown()))
    return r == z3.sat


# ---------------------------------------------------------------------------------------------
# from a cgv dump to an automaton over keys

def states_of(d):
    st = {d['start']}
    st.update(d['accepting'])
    for (f, _, t) in d['transitions']:
        st.add(f)
        st.add(t)
    return sorted(st)


def nfa_of_dump(d, keyfn):
    """-> (states list, start index, trans: list of {key: set(target idx)}, accepting idx set)"""
    st = states_of(d)
    idx = {s: i for i, s in enumerate(st)}
    trans = [dict() for _ in st]
    for (f, i, t) in d['transitions']:
        k = keyfn(d['inputs'][i])
        trans[idx[f]].setdefault(k, set()).add(idx[t])
    return st, idx[d['start']], trans, {idx[s] for s in d['accepting']}


def is_deterministic(trans):
    return all(len(ts) == 1 for row in trans for ts in row.values())


def determinise(start, trans, accepting):
    """Subset construction; also returns the subsets so that a state can be reported."""
    init = frozenset([start])
    index = {init: 0}
    order = [init]
    out = []
    i = 0
    while i < len(order):
        cur = order[i]
        row = {}
        keys = set()
        for s in cur:
            keys.update(trans[s])
        for k in sorted(keys, key=repr):
            tgt = set()
            for s in cur:
                tgt.update(trans[s].get(k, ()))
            tgt = frozenset(tgt)
            if tgt not in index:
                index[tgt] = len(order)
                order.append(tgt)
            row[k] = index[tgt]
        out.append(row)
        i += 1
    acc = [i for i, ss in enumerate(order) if ss & accepting]
    return Auto(0, out, acc), order


def auto_of_dump(d, keyfn):
    st, start, trans, acc = nfa_of_dump(d, keyfn)
    if is_deterministic(trans):
        return Auto(start, [{k: next(iter(v)) for k, v in row.items()} for row in trans], acc), st, True
    a, _ = determinise(start, trans, acc)
    return a, st, False


# ---------------------------------------------------------------------------------------------
# query 1: bisimulation (= equality of labelled languages for trim partial DFAs), unbounded

def bisim(A, R, stats, kind='bisim'):
    """sat <=> a relation containing (startA, startR) exists that respects acceptance, definedness of
    every key, and successors. Returns (True, relation set) or (False, None)."""
    nA, nR = A.n, R.n
    s = z3.Solver()
    r = [[z3.Bool('r_%d_%d' % (p, q)) for q in range(nR)] for p in range(nA)]
    s.add(r[A.start][R.start])
    for p in range(nA):
        for q in range(nR):
            if (p in A.accepting) != (q in R.accepting):
                s.add(z3.Not(r[p][q]))
                continue
            ka = set(A.trans[p])
            kr = set(R.trans[q])
            if ka != kr:
                s.add(z3.Not(r[p][q]))
                continue
            for k in ka:
                s.add(z3.Implies(r[p][q], r[A.trans[p][k]][R.trans[q][k]]))
    ok = _check(s, kind, stats)
    if not ok:
        return False, None
    m = s.model()
    rel = {(p, q) for p in range(nA) for q in range(nR) if z3.is_true(m.eval(r[p][q], model_completion=True))}
    validate_relation(A, R, rel)
    return True, rel


def validate_relation(A, R, rel):
    """Independent re-check of a model returned by the solver."""
    if (A.start, R.start) not in rel:
        raise Inconclusive('solver model is not a bisimulation: start pair missing')
    for (p, q) in rel:
        if (p in A.accepting) != (q in R.accepting):
            raise Inconclusive('solver model is not a bisimulation: acceptance')
        if set(A.trans[p]) != set(R.trans[q]):
            raise Inconclusive('solver model is not a bisimulation: keys')
        for k, t in A.trans[p].items():
            if (t, R.trans[q][k]) not in rel:
                raise Inconclusive('solver model is not a bisimulation: successor')


# ---------------------------------------------------------------------------------------------
# query 2: shortest distinguishing key sequence by bounded model checking

def distinguish(A, R, stats, kind='bmc'):
    keys = sorted(A.keys() | R.keys(), key=repr)
    if not keys:
        keys = [('none',)]
    nk = len(keys)
    SINK_A, SINK_R = A.n, R.n

    def step(auto, sink, sv, kv):
        expr = z3.IntVal(sink)
        for p in range(auto.n):
            for k, t in auto.trans[p].items():
                expr = z3.If(z3.And(sv == p, kv == keys.index(k)), z3.IntVal(t), expr)
        return expr

    def accepting(auto, sv):
        return z3.Or([sv == a for a in auto.accepting]) if auto.accepting else z3.BoolVal(False)

    bound = A.n * R.n + 2
    for depth in range(0, bound + 1):
        s = z3.Solver()
        ks = [z3.Int('k_%d' % i) for i in range(depth)]
        for kv in ks:
            s.add(kv >= 0, kv < nk)
        sa, sr = z3.IntVal(A.start), z3.IntVal(R.start)
        for kv in ks:
            sa = step(A, SINK_A, sa, kv)
            sr = step(R, SINK_R, sr, kv)
        s.add(accepting(A, sa) != accepting(R, sr))
        if _check(s, kind, stats):
            m = s.model()
            return [keys[m.eval(kv, model_completion=True).as_long()] for kv in ks]
    return None


def walk(auto, seq):
    """Explicit walk (replay oracle): -> (accepted, number of keys consumed before dying)"""
    s = auto.start
    for i, k in enumerate(seq):
        if k not in auto.trans[s]:
            return False, i
        s = auto.trans[s][k]
    return s in auto.accepting, len(seq)


# ---------------------------------------------------------------------------------------------
# query 3: trimness -- "is there a successor-closed set containing the start that misses a state?"

def unreachable_state(A, stats, kind='reach'):
    s = z3.Solver()
    inn = [z3.Bool('in_%d' % p) for p in range(A.n)]
    s.add(inn[A.start])
    for p in range(A.n):
        for t in A.trans[p].values():
            s.add(z3.Implies(inn[p], inn[t]))
    s.add(z3.Or([z3.Not(x) for x in inn]))
    if not _check(s, kind, stats):
        return None
    m = s.model()
    # the model's set is closed and misses something; the least closed set misses it too
    seen = {A.start}
    stack = [A.start]
    while stack:
        p = stack.pop()
        for t in A.trans[p].values():
            if t not in seen:
                seen.add(t)
                stack.append(t)
    miss = [p for p in range(A.n) if p not in seen]
    if not miss:
        raise Inconclusive('solver claims an unreachable state, explicit search finds none')
    return miss[0]


def dead_state(A, stats, kind='coreach'):
    s = z3.Solver()
    inn = [z3.Bool('co_%d' % p) for p in range(A.n)]
    for a in A.accepting:
        s.add(inn[a])
    for p in range(A.n):
        for t in A.trans[p].values():
            s.add(z3.Implies(inn[t], inn[p]))
    s.add(z3.Or([z3.Not(x) for x in inn]))
    if not _check(s, kind, stats):
        return None
    t = trim(A)
    # explicit confirmation
    rev = {}
    for p in range(A.n):
        for q in A.trans[p].values():
            rev.setdefault(q, []).append(p)
    co = set(A.accepting)
    stack = list(co)
    while stack:
        q = stack.pop()
        for p in rev.get(q, ()):
            if p not in co:
                co.add(p)
                stack.append(p)
    miss = [p for p in range(A.n) if p not in co]
    if not miss:
        raise Inconclusive('solver claims a dead state, explicit search finds none')
    return miss[0]


# ---------------------------------------------------------------------------------------------
# query 4: minimality -- "are there two different states related by a self-bisimulation?"

def equivalent_pair(A, stats, kind='minimal'):
    n = A.n
    if n < 2:
        stats.note(kind, 'trivial', 0.0)
        return None
    s = z3.Solver()
    r = [[z3.Bool('e_%d_%d' % (p, q)) for q in range(n)] for p in range(n)]
    for p in range(n):
        for q in range(n):
            if (p in A.accepting) != (q in A.accepting) or set(A.trans[p]) != set(A.trans[q]):
                s.add(z3.Not(r[p][q]))
                continue
            for k in A.trans[p]:
                s.add(z3.Implies(r[p][q], r[A.trans[p][k]][A.trans[q][k]]))
    s.add(z3.Or([r[p][q] for p in range(n) for q in range(p + 1, n)]))
    if not _check(s, kind, stats):
        return None
    m = s.model()
    for p in range(n):
        for q in range(p + 1, n):
            if z3.is_true(m.eval(r[p][q], model_completion=True)):
                return (p, q)
    raise Inconclusive('sat without a witness pair')


# ---------------------------------------------------------------------------------------------
# SMT-LIB2 export of a bisimulation query for the second-solver cross-check

def bisim_smt2(A, R):
    lines = ['(set-logic ALL)']
    for p in range(A.n):
        for q in range(R.n):
            lines.append('(declare-const r_%d_%d Bool)' % (p, q))
    lines.append('(assert r_%d_%d)' % (A.start, R.start))
    for p in range(A.n):
        for q in range(R.n):
            if (p in A.accepting) != (q in R.accepting) or set(A.trans[p]) != set(R.trans[q]):
                lines.append('(assert (not r_%d_%d))' % (p, q))
                continue
            for k in A.trans[p]:
                lines.append('(assert (=> r_%d_%d r_%d_%d))' % (p, q, A.trans[p][k], R.trans[q][k]))
    lines.append('(check-sat)')
    return '\n'.join(lines) + '\n'
