"""MANIFEST.setup_cmd: build everything the checks need from files on disk only (offline)."""
import compileall
import os
import sys

from . import common


def main():
    common.ensure_built()
    # warm the nightly build used for the MIR dump (C07, C16): 40-60 s cold, a few seconds afterwards
    from . import mirsym
    mir = mirsym.dump_mir()
    print('MIR dump ok: %d lines' % mir.count('\n'))
    compileall.compile_dir(os.path.dirname(os.path.abspath(__file__)), quiet=1)
    print('setup ok: %s, %s' % (common.CGV_BIN, common.COMPLGEN_BIN))
    return 0


if __name__ == '__main__':
    sys.exit(main())
