"""Running the emitted script in the real bash 5.2 (replay + interpreter validation)."""
import os
import subprocess
import tempfile

from .errors import Inconclusive

STUB = '''_get_comp_words_by_ref () { words=("${COMP_WORDS[@]}"); cword=$COMP_CWORD; }
'''


def ansi_c(s):
    out = ["$'"]
    for ch in s:
        o = ord(ch)
        if ch.isalnum() or ch in '-_=+:,./@%^':
            out.append(ch)
        else:
            out.append('\\x%02x' % o if o < 256 else ch)
    out.append("'")
    return ''.join(out)


def probe_function(probes):
    lines = ["cgvprobe () {", "    printf '%s\\x1f%s\\x1f%s\\n' \"$1\" \"$2\" \"$3\" >&9", '    case "$1" in']
    for pid, text in sorted(probes.items()):
        lines.append("        %s) printf '%%s' %s ;;" % (pid, ansi_c(text)))
    lines.append('    esac')
    lines.append('}')
    return '\n'.join(lines) + '\n'


def bash_n(script_text):
    with tempfile.NamedTemporaryFile('w', suffix='.bash', delete=False) as f:
        f.write(script_text)
        path = f.name
    try:
        p = subprocess.run(['bash', '--noprofile', '--norc', '-n', path], stdout=subprocess.PIPE,
                           stderr=subprocess.STDOUT, text=True, timeout=30)
        return p.returncode == 0, p.stdout
    finally:
        os.unlink(path)


def driver_text(script_path, probes, cases, fn, out_path, log_path):
    d = ['export LC_ALL=C', 'exec 8>%s 9>%s' % (out_path, log_path), STUB, probe_function(probes),
         'source %s' % script_path]
    for i, (wb, words, cword) in enumerate(cases):
        d.append('COMP_WORDBREAKS=%s' % ansi_c(wb))
        d.append('COMP_WORDS=(%s)' % ' '.join(ansi_c(w) for w in words))
        d.append('COMP_CWORD=%d' % cword)
        d.append('COMPREPLY=()')
        d.append("printf 'CASE %d\\n' >&9; printf 'CASE %d\\n' >&8" % (i, i))
        d.append('%s >/dev/null 2>&1' % fn)
        d.append("printf 'RC %d\\n' $? >&8")
        d.append("for __x in \"${COMPREPLY[@]}\"; do printf 'R%s\\n' \"$__x\" >&8; done")
    d.append("printf 'DONE\\n' >&8")
    return '\n'.join(d) + '\n'


def run_real(script_text, probes, cases, fn='_cmd', keep=None):
    """cases: [(wordbreaks, [words...], cword)] -> [(rc, [reply...], [(probe id, a1, a2)...])]
    keep: path of a directory to leave the driver in (for replay files)."""
    tmp = keep or tempfile.mkdtemp(prefix='cgv-bash-')
    os.makedirs(tmp, exist_ok=True)
    sp = os.path.join(tmp, 'script.bash')
    op = os.path.join(tmp, 'out.txt')
    lp = os.path.join(tmp, 'log.txt')
    dp = os.path.join(tmp, 'driver.bash')
    with open(sp, 'w') as f:
        f.write(script_text)
    with open(dp, 'w') as f:
        f.write(driver_text(sp, probes, cases, fn, op, lp))
    try:
        p = subprocess.run(['bash', '--noprofile', '--norc', dp], stdout=subprocess.PIPE,
                           stderr=subprocess.STDOUT, text=True, timeout=900, errors='replace')
        with open(op, errors='replace') as f:
            out = f.read().split('\n')
        with open(lp, errors='replace') as f:
            log = f.read().split('\n')
    except subprocess.TimeoutExpired:
        raise Inconclusive('real bash timed out')
    finally:
        if keep is None:
            for x in (sp, op, lp, dp):
                try:
                    os.unlink(x)
                except OSError:
                    pass
            try:
                os.rmdir(tmp)
            except OSError:
                pass
    results = {}
    cur = None
    for line in out:
        if line.startswith('CASE '):
            cur = int(line[5:])
            results[cur] = [None, [], []]
        elif line.startswith('RC ') and cur is not None and results[cur][0] is None:
            results[cur][0] = int(line[3:])
        elif line.startswith('R') and cur is not None and results[cur][0] is not None:
            results[cur][1].append(line[1:])
    cur = None
    for line in log:
        if line.startswith('CASE '):
            cur = int(line[5:])
        elif line and cur is not None and cur in results:
            f = line.split('\x1f')
            if len(f) == 3:
                results[cur][2].append(tuple(f))
    if 'DONE' not in out:
        raise Inconclusive('real bash driver did not finish: %s' % p.stdout[-500:])
    res = []
    for i in range(len(cases)):
        if i not in results or results[i][0] is None:
            raise Inconclusive('real bash produced no result for case %d' % i)
        res.append((results[i][0], results[i][1], results[i][2]))
    return res
