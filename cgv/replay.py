"""python3-vt -m cgv.replay <replay file>: show a recorded violation and, for bash ones, re-run it in
the real bash against the script emitted by the *current* /repo working tree."""
import json
import sys

from . import common, bashreal


def main(argv):
    if len(argv) < 2:
        print('usage: python3-vt -m cgv.replay <path>')
        return 2
    d = json.load(open(argv[1]))
    print('property:', d.get('property'), ' key:', d.get('key'))
    print('what:', d.get('what'))
    print('grammar:\n' + d.get('grammar', ''))
    if 'words' in d:
        common.ensure_built(False)
        rc, script, err = common.emit_script('bash', d['grammar'])
        if rc != 0:
            print('complgen now rejects the grammar:', err)
            return 1
        res = bashreal.run_real(script, d.get('probes', {}), [(d['wordbreaks'], ['cmd'] + d['words'], len(d['words']))])
        print('real bash now: rc=%d COMPREPLY=%r log=%r' % res[0])
        print('expected     : %r' % (d.get('expected'),))
        return 0 if sorted(set(res[0][1])) == d.get('expected') else 1
    for k in ('shell', 'stage', 'sequence', 'state'):
        if k in d:
            print('%s: %r' % (k, d[k]))
    return 0


if __name__ == '__main__':
    sys.exit(main(sys.argv))
