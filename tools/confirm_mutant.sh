#!/bin/bash
# usage: tools/confirm_mutant.sh <dir with patch.diff and demo.sh> : confirm on a scratch worktree of /repo HEAD
# that the change compiles, passes the existing tests, and that the demo fails with / passes without it.
set -u
src=$(readlink -f "$1")
wt=/tmp/confirm-wt-$$
git -C /repo worktree add -q --detach $wt HEAD || exit 3
trap 'git -C /repo worktree remove --force '$wt' >/dev/null 2>&1' EXIT
cd $wt
export CARGO_TARGET_DIR=$wt/target CARGO_NET_OFFLINE=true
if ! git apply "$src/patch.diff"; then echo "RESULT patch-does-not-apply"; exit 3; fi
cargo build --offline >/dev/null 2>&1 || { echo "RESULT does-not-compile"; exit 1; }
t=$(cargo test --workspace --offline 2>&1 | grep -E "^test result" | head -1)
echo "tests with change: $t"
mkdir -p MUTATION; cp "$src"/* MUTATION/ 2>/dev/null
sed -i "s#/tmp/wt[0-9]*-C[0-9]*#$wt#g" MUTATION/demo.sh 2>/dev/null
bash MUTATION/demo.sh >/tmp/confirm-with.log 2>&1; with=$?
git apply -R "$src/patch.diff"
cargo build --offline >/dev/null 2>&1
bash MUTATION/demo.sh >/tmp/confirm-without.log 2>&1; without=$?
echo "demo exit with change: $with ; without: $without"
case "$t" in *"59 passed; 0 failed"*) ok=1;; *) ok=0;; esac
if [ $ok = 1 ] && [ $with != 0 ] && [ $without = 0 ]; then echo "RESULT confirmed"; else echo "RESULT not-confirmed"; tail -5 /tmp/confirm-with.log; tail -5 /tmp/confirm-without.log; fi
