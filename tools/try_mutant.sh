#!/bin/bash
# usage: tools/try_mutant.sh <patch.diff> <PROP> [<PROP>...]   -- apply to /repo, run quick checks, undo
set -u
patch=$(readlink -f "$1"); shift
cd /verif
if ! git -C /repo diff --quiet; then echo "repo dirty"; exit 3; fi
if ! git -C /repo apply "$patch"; then echo "patch does not apply"; exit 3; fi
trap 'git -C /repo checkout -- . ' EXIT
for p in "$@"; do
  start=$(date +%s)
  out=$(python3-vt -m cgv.check "$p" --tier quick 2>&1); rc=$?
  echo "== $p exit=$rc ($(( $(date +%s)-start ))s)"
  echo "$out" | grep -E "^VIOLATION|^  [a-z]|^INCONCLUSIVE" | cut -c1-300 | head -8
done
