#!/bin/bash
# run every seeded change against the quick check of its property; prints one line per change
# usage: tools/all_mutants.sh [regex on the property id, e.g. 'C0[2349]|C11|C16']   (default: all; the full run takes about 3 h)
cd /verif
filter=${1:-.}
for d in seeded/*/; do
  prop=$(python3 -c "import json;print(json.load(open('$d/meta.json'))['property'])")
  echo "$prop" | grep -Eq "^($filter)$" || continue
  out=$(tools/try_mutant.sh $d/patch.diff $prop 2>&1)
  echo "$(basename $d): $(echo "$out" | grep '^== ' )  $(echo "$out" | grep -A1 '^VIOLATION' | sed -n 2p | cut -c1-100)"
done
