#!/bin/bash
# run every seeded change against the quick check of its property; prints one line per change
cd /verif
for d in seeded/*/; do
  prop=$(python3 -c "import json;print(json.load(open('$d/meta.json'))['property'])")
  out=$(tools/try_mutant.sh $d/patch.diff $prop 2>&1)
  echo "$(basename $d): $(echo "$out" | grep '^== ' )  $(echo "$out" | grep -A1 '^VIOLATION' | sed -n 2p | cut -c1-100)"
done
