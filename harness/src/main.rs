// cgv: dumps the intermediate artefacts of the real complgen pipeline as JSON.
//
// The sequence of library calls is exactly the one src/main.rs (aot) performs:
//   Grammar::parse -> ValidGrammar::from_grammar -> Regex::from_valid_grammar
//   -> DFA::from_regex_raw -> minimize -> check_ambiguity_best_effort
//
// Protocol (stdin, one request per line, fields separated by a single space, strings hex-encoded):
//   dump <shell> <hex grammar>      -> one JSON object per line
//   strconst <hex string>           -> {"bash":..,"fish":..,"zsh":..,"pwsh":..,"dot":..,"dot_escape":..}
//   fmt <hex string>                -> format!-based probes used to validate the MIR template decoding
// Output: one JSON line per request.

use std::fmt::Write as _;
use std::io::{BufRead, Write};

use complgen::check::ValidGrammar;
use complgen::dfa::{DFA, Inp};
use complgen::parse::{Grammar, Shell};
use complgen::regex::{Regex, RegexInput, RegexInternPool};
use complgen::verif as hooks;

fn jstr(out: &mut String, s: &str) {
    out.push('"');
    for c in s.chars() {
        match c {
            '"' => out.push_str("\\\""),
            '\\' => out.push_str("\\\\"),
            '\n' => out.push_str("\\n"),
            '\r' => out.push_str("\\r"),
            '\t' => out.push_str("\\t"),
            c if (c as u32) < 0x20 => {
                let _ = write!(out, "\\u{:04x}", c as u32);
            }
            c => out.push(c),
        }
    }
    out.push('"');
}

fn unhex(s: &str) -> Option<String> {
    let bytes = s.as_bytes();
    if bytes.len() % 2 != 0 {
        return None;
    }
    let mut v = Vec::with_capacity(bytes.len() / 2);
    for pair in bytes.chunks(2) {
        let h = (pair[0] as char).to_digit(16)?;
        let l = (pair[1] as char).to_digit(16)?;
        v.push((h * 16 + l) as u8);
    }
    String::from_utf8(v).ok()
}

fn error_name(e: &complgen::Error) -> String {
    let dbg = format!("{:?}", e);
    dbg.split(|c: char| !(c.is_alphanumeric() || c == '_'))
        .next()
        .unwrap_or("")
        .to_string()
}

fn dump_regex_input(out: &mut String, input: &RegexInput) {
    match input {
        RegexInput::Literal {
            literal,
            description,
            fallback_level,
            ..
        } => {
            out.push_str("{\"kind\":\"lit\",\"text\":");
            jstr(out, literal);
            out.push_str(",\"descr\":");
            match description {
                Some(d) => jstr(out, d),
                None => out.push_str("null"),
            }
            let _ = write!(out, ",\"level\":{}}}", fallback_level);
        }
        RegexInput::Nonterminal {
            nonterm,
            fallback_level,
            ..
        } => {
            out.push_str("{\"kind\":\"nonterm\",\"name\":");
            jstr(out, nonterm);
            let _ = write!(out, ",\"level\":{}}}", fallback_level);
        }
        RegexInput::Command {
            cmd,
            zsh_compadd,
            fallback_level,
            ..
        } => {
            out.push_str("{\"kind\":\"cmd\",\"cmd\":");
            jstr(out, cmd);
            let _ = write!(
                out,
                ",\"compadd\":{},\"level\":{}}}",
                zsh_compadd, fallback_level
            );
        }
        RegexInput::Subword {
            subword_regex_id,
            fallback_level,
            ..
        } => {
            let _ = write!(
                out,
                "{{\"kind\":\"sub\",\"regex\":{},\"level\":{}}}",
                hooks::regex_id_raw(*subword_regex_id),
                fallback_level
            );
        }
    }
}

fn dump_regex(out: &mut String, regex: &Regex) {
    out.push_str("{\"positions\":[");
    for (i, input) in regex.input_from_position.iter().enumerate() {
        if i > 0 {
            out.push(',');
        }
        dump_regex_input(out, input);
    }
    let _ = write!(out, "],\"endmarker\":{},\"firstpos\":[", regex.endmarker_position);
    for (i, p) in regex.firstpos().iter().enumerate() {
        if i > 0 {
            out.push(',');
        }
        let _ = write!(out, "{}", p);
    }
    out.push_str("],\"followpos\":{");
    for (i, (pos, follow)) in hooks::regex_followpos(regex).iter().enumerate() {
        if i > 0 {
            out.push(',');
        }
        let _ = write!(out, "\"{}\":[", pos);
        for (j, f) in follow.iter().enumerate() {
            if j > 0 {
                out.push(',');
            }
            let _ = write!(out, "{}", f);
        }
        out.push(']');
    }
    out.push_str("}}");
}

fn dump_inp(out: &mut String, inp: &Inp) {
    match inp {
        Inp::Literal {
            literal,
            description,
            fallback_level,
        } => {
            out.push_str("{\"kind\":\"lit\",\"text\":");
            jstr(out, literal);
            out.push_str(",\"descr\":");
            match description {
                Some(d) => jstr(out, d),
                None => out.push_str("null"),
            }
            let _ = write!(out, ",\"level\":{}}}", fallback_level);
        }
        Inp::Subword {
            subdfa,
            fallback_level,
        } => {
            let _ = write!(
                out,
                "{{\"kind\":\"sub\",\"dfa\":{},\"level\":{}}}",
                hooks::dfa_id_raw(*subdfa),
                fallback_level
            );
        }
        Inp::Command {
            cmd,
            fallback_level,
        } => {
            out.push_str("{\"kind\":\"cmd\",\"cmd\":");
            jstr(out, cmd);
            let _ = write!(out, ",\"level\":{}}}", fallback_level);
        }
        Inp::Compadd {
            cmd,
            fallback_level,
        } => {
            out.push_str("{\"kind\":\"compadd\",\"cmd\":");
            jstr(out, cmd);
            let _ = write!(out, ",\"level\":{}}}", fallback_level);
        }
        Inp::Star => out.push_str("{\"kind\":\"star\"}"),
    }
}

fn dump_dfa(out: &mut String, dfa: &DFA, with_subdfas: bool) {
    let _ = write!(out, "{{\"start\":{},\"accepting\":[", dfa.starting_state);
    for (i, s) in dfa.accepting_states.iter().enumerate() {
        if i > 0 {
            out.push(',');
        }
        let _ = write!(out, "{}", s);
    }
    out.push_str("],\"transitions\":[");
    let mut first = true;
    for (from, tos) in &dfa.transitions {
        for (inp, to) in tos {
            if !first {
                out.push(',');
            }
            first = false;
            let _ = write!(out, "[{},{},{}]", from, hooks::inp_id_raw(*inp), to);
        }
    }
    out.push_str("],\"states_with_rows\":[");
    for (i, (from, _)) in dfa.transitions.iter().enumerate() {
        if i > 0 {
            out.push(',');
        }
        let _ = write!(out, "{}", from);
    }
    out.push_str("],\"inputs\":[");
    for (i, (_, inp)) in hooks::all_inputs(dfa).iter().enumerate() {
        if i > 0 {
            out.push(',');
        }
        dump_inp(out, inp);
    }
    out.push(']');
    if with_subdfas {
        out.push_str(",\"subdfas\":[");
        for i in 0..hooks::num_subdfas(dfa) {
            if i > 0 {
                out.push(',');
            }
            dump_dfa(out, hooks::subdfa_by_index(dfa, i), false);
        }
        out.push(']');
    }
    out.push('}');
}

fn shell_from(s: &str) -> Option<Shell> {
    match s {
        "bash" => Some(Shell::Bash),
        "fish" => Some(Shell::Fish),
        "zsh" => Some(Shell::Zsh),
        "pwsh" => Some(Shell::Pwsh),
        _ => None,
    }
}

fn fail(out: &mut String, stage: &str, e: &complgen::Error) {
    out.push_str("{\"ok\":false,\"stage\":");
    jstr(out, stage);
    out.push_str(",\"error\":");
    jstr(out, &error_name(e));
    out.push('}');
}

fn names(out: &mut String, key: &str, map: &ustr::UstrMap<complgen::parse::HumanSpan>) {
    let mut v: Vec<&str> = map.keys().map(|k| k.as_str()).collect();
    v.sort();
    out.push('"');
    out.push_str(key);
    out.push_str("\":[");
    for (i, n) in v.iter().enumerate() {
        if i > 0 {
            out.push(',');
        }
        jstr(out, n);
    }
    out.push(']');
}

fn dump(shell: Shell, input: &str) -> String {
    let mut out = String::new();
    let grammar = match Grammar::parse(input) {
        Ok(g) => g,
        Err(e) => {
            fail(&mut out, "parse", &e);
            return out;
        }
    };
    let validated = match ValidGrammar::from_grammar(grammar, shell) {
        Ok(v) => v,
        Err(e) => {
            fail(&mut out, "check", &e);
            return out;
        }
    };
    let mut subword_regexes = RegexInternPool::default();
    let regex = match Regex::from_valid_grammar(&validated, &mut subword_regexes) {
        Ok(r) => r,
        Err(e) => {
            fail(&mut out, "regex", &e);
            return out;
        }
    };
    out.push_str("{\"ok\":true,\"command\":");
    jstr(&mut out, &validated.command);
    out.push_str(",\"warnings\":{");
    names(&mut out, "undefined", &validated.undefined_nonterminals);
    out.push(',');
    names(&mut out, "unused", &validated.unused_nonterminals);
    out.push(',');
    names(&mut out, "unused_specs", &validated.unused_specializations);
    out.push_str("},\"regex\":");
    dump_regex(&mut out, &regex);
    out.push_str(",\"subregexes\":[");
    for i in 0..hooks::regex_pool_len(&subword_regexes) {
        if i > 0 {
            out.push(',');
        }
        dump_regex(&mut out, hooks::regex_lookup_by_index(&subword_regexes, i));
    }
    out.push(']');

    // every within-word regex compiled on its own, the way Inp::from_input does it
    // (from_regex = from_regex_raw + ambiguity check), before and after minimisation
    out.push_str(",\"subautomata\":[");
    let mut interned: Vec<Option<DFA>> = Vec::new();
    for i in 0..hooks::regex_pool_len(&subword_regexes) {
        if i > 0 {
            out.push(',');
        }
        let subregex = hooks::regex_lookup_by_index(&subword_regexes, i).clone();
        match DFA::from_regex_raw(subregex, &subword_regexes) {
            Ok(raw) => {
                out.push_str("{\"raw\":");
                dump_dfa(&mut out, &raw, false);
                let min = raw.minimize();
                out.push_str(",\"min\":");
                dump_dfa(&mut out, &min, false);
                out.push('}');
                interned.push(Some(min));
            }
            Err(_) => {
                out.push_str("null");
                interned.push(None);
            }
        }
    }
    out.push(']');
    // which of these does the compiler's own `==` (the relation DFAInternPool merges by) call equal
    out.push_str(",\"subautomata_eq\":[");
    let mut first = true;
    for i in 0..interned.len() {
        for j in (i + 1)..interned.len() {
            if let (Some(a), Some(b)) = (&interned[i], &interned[j]) {
                if a == b {
                    if !first {
                        out.push(',');
                    }
                    first = false;
                    out.push_str(&format!("[{},{}]", i, j));
                }
            }
        }
    }
    out.push(']');

    let dfa = match DFA::from_regex_raw(regex, &subword_regexes) {
        Ok(d) => d,
        Err(e) => {
            // close the object as a failure record, keeping what was computed
            let mut f = String::new();
            fail(&mut f, "dfa", &e);
            return f;
        }
    };
    out.push_str(",\"raw\":");
    dump_dfa(&mut out, &dfa, true);
    let min = dfa.minimize();
    out.push_str(",\"min\":");
    dump_dfa(&mut out, &min, true);
    match min.check_ambiguity_best_effort() {
        Ok(()) => out.push_str(",\"ambiguity\":null"),
        Err(e) => {
            out.push_str(",\"ambiguity\":");
            jstr(&mut out, &error_name(&e));
        }
    }
    out.push('}');
    out
}

fn strconst(s: &str) -> String {
    let mut out = String::new();
    out.push_str("{\"bash\":");
    jstr(&mut out, &hooks::bash_string_constant(s));
    out.push_str(",\"fish\":");
    jstr(&mut out, &hooks::fish_string_constant(s));
    out.push_str(",\"zsh\":");
    jstr(&mut out, &hooks::zsh_string_constant(s));
    out.push_str(",\"pwsh\":");
    jstr(&mut out, &hooks::pwsh_string_constant(s));
    out.push_str(",\"dot\":");
    jstr(&mut out, &hooks::dot_string_constant(s));
    out.push_str(",\"dot_escape\":");
    jstr(&mut out, &hooks::dot_escape(s));
    out.push('}');
    out
}

fn main() {
    let stdin = std::io::stdin();
    let stdout = std::io::stdout();
    let mut w = std::io::BufWriter::new(stdout.lock());
    for line in stdin.lock().lines() {
        let Ok(line) = line else { break };
        let mut parts = line.split(' ');
        let resp = match parts.next() {
            Some("dump") => {
                let shell = parts.next().and_then(shell_from);
                let text = parts.next().and_then(unhex);
                match (shell, text) {
                    (Some(shell), Some(text)) => {
                        match std::panic::catch_unwind(|| dump(shell, &text)) {
                            Ok(s) => s,
                            Err(_) => "{\"ok\":false,\"stage\":\"panic\",\"error\":\"panic\"}".to_string(),
                        }
                    }
                    _ => "{\"ok\":false,\"stage\":\"request\",\"error\":\"bad request\"}".to_string(),
                }
            }
            Some("strconst") => match parts.next().and_then(unhex) {
                Some(s) => strconst(&s),
                None => "{\"error\":\"bad request\"}".to_string(),
            },
            _ => "{\"error\":\"unknown request\"}".to_string(),
        };
        let _ = writeln!(w, "{}", resp);
        let _ = w.flush();
    }
}
